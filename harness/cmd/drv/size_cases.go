package main

// C20: size.Of / size.Stat on typed value trees. The description (type t, content v) is produced by the
// generator (or by TLC in the GEN engine), never by inspecting the value; the value is rebuilt from it
// with package reflect.

import (
	"fmt"
	"math/rand"
	"reflect"
	"regexp"
	"strconv"
	"strings"

	"github.com/openacid/low/size"
)

// execStat (extra X05): the shape of size.Stat's rendering: per line its indentation level (4 blanks each) and the
// last integer on it (-1 for a "<nil>" line).
func execStat(in In, em *Emitter) {
	t, v := in.O("t"), in.O("v")
	depth, maxItem := in.Int("depth"), in.Int("maxItem")
	o := J{}
	abn := guard(func() {
		typ := buildType(t, v)
		arg := buildValue(t, v, typ).Interface()
		var lines [][]int64
		for _, ln := range strings.Split(size.Stat(arg, depth, maxItem), "\n") {
			ind := 0
			for strings.HasPrefix(ln[4*ind:], "    ") {
				ind++
			}
			n := int64(-1)
			if !strings.HasSuffix(ln, "<nil>") {
				if m := lastInt.FindAllString(ln, -1); len(m) > 0 {
					n, _ = strconv.ParseInt(m[len(m)-1], 10, 64)
				} else {
					n = -2
				}
			}
			lines = append(lines, []int64{int64(ind), n})
		}
		o["lines"] = lines
	})
	em.Emit("stat", J{"in": in.m, "out": o, "abn": abn})
	em.Calls(1)
}

// statOK tells whether a value description can be rendered deterministically: maps hold at most one entry.
func statOK(v interface{}) bool {
	switch x := v.(type) {
	case J:
		if kv, ok := x["kv"]; ok {
			if l, ok := kv.([][]J); ok && len(l) > 1 {
				return false
			}
		}
		for _, y := range x {
			if !statOK(y) {
				return false
			}
		}
	case []J:
		for _, y := range x {
			if !statOK(y) {
				return false
			}
		}
	case [][]J:
		for _, y := range x {
			if !statOK(y) {
				return false
			}
		}
	}
	return true
}

func genX05(g *Gen) {
	sg := &sizeGen{r: g.R}
	for c := 0; c < g.N(3000, 60000); c++ {
		depth := 1 + g.R.Intn(4)
		t := sg.typ(depth)
		for t["k"] == "iface" {
			t = sg.typ(depth)
		}
		v := sg.val(t, depth, false)
		if !statOK(v) {
			continue
		}
		g.Case("stat", J{"t": t, "v": v, "depth": g.R.Intn(5), "maxItem": []int{0, 1, 2, 3, 100, -1}[g.R.Intn(6)]})
	}
}

func init() {
	props["X05"] = &Prop{Gen: genX05, Exec: map[string]func(in In, em *Emitter){"stat": execStat}}
	props["C20"] = &Prop{Gen: genC20, Exec: map[string]func(in In, em *Emitter){"size": execSize},
		Trivial: func(k string, in In) bool { return in.Bool("topnil") }}
}

var scalarTypes = map[string]reflect.Type{
	"bool": reflect.TypeOf(false), "int8": reflect.TypeOf(int8(0)), "uint8": reflect.TypeOf(uint8(0)),
	"int16": reflect.TypeOf(int16(0)), "uint16": reflect.TypeOf(uint16(0)), "int32": reflect.TypeOf(int32(0)),
	"uint32": reflect.TypeOf(uint32(0)), "float32": reflect.TypeOf(float32(0)), "int64": reflect.TypeOf(int64(0)),
	"uint64": reflect.TypeOf(uint64(0)), "float64": reflect.TypeOf(float64(0)), "complex64": reflect.TypeOf(complex64(0)),
	"complex128": reflect.TypeOf(complex128(0)), "int": reflect.TypeOf(int(0)), "uint": reflect.TypeOf(uint(0)),
	"uintptr": reflect.TypeOf(uintptr(0)),
}

var ifaceType = reflect.TypeOf((*interface{})(nil)).Elem()
var lastInt = regexp.MustCompile(`[0-9]+`)

// arrayLen is needed to build an array type: it is read from the value description.
func buildType(t In, v In) reflect.Type {
	k := t.S("k")
	if st, ok := scalarTypes[k]; ok {
		return st
	}
	switch k {
	case "string":
		return reflect.TypeOf("")
	case "iface":
		return ifaceType
	case "slice":
		return reflect.SliceOf(buildType(t.O("e"), firstElem(v)))
	case "array":
		return reflect.ArrayOf(t.Int("n"), buildType(t.O("e"), firstElem(v)))
	case "ptr":
		var to In
		if v.m != nil && v.has("to") {
			to = v.O("to")
		}
		return reflect.PtrTo(buildType(t.O("e"), to))
	case "map":
		return reflect.MapOf(buildType(t.O("key"), In{}), buildType(t.O("e"), In{}))
	case "struct":
		fts := t.L("f")
		fs := make([]reflect.StructField, len(fts))
		for i, ft := range fts {
			fs[i] = reflect.StructField{Name: fmt.Sprintf("F%d", i), Type: buildType(ft, In{})}
		}
		return reflect.StructOf(fs)
	}
	fatalf("size: unknown type kind %q", k)
	return nil
}

func firstElem(v In) In { return In{} }

func buildValue(t In, v In, typ reflect.Type) reflect.Value {
	k := t.S("k")
	val := reflect.New(typ).Elem()
	x := int64(1)
	if v.has("x") {
		x = v.I("x")
	}
	switch k {
	case "bool":
		val.SetBool(x%2 == 1)
	case "int8", "int16", "int32", "int64", "int":
		val.SetInt(x % 100)
	case "uint8", "uint16", "uint32", "uint64", "uint", "uintptr":
		val.SetUint(uint64(x % 100))
	case "float32", "float64":
		val.SetFloat(float64(x) + 0.5)
	case "complex64", "complex128":
		val.SetComplex(complex(float64(x), 1))
	case "string":
		n := v.Int("n")
		b := make([]byte, n)
		for i := range b {
			b[i] = byte('a' + (int(x)+i)%26)
		}
		s := strconv.FormatInt(x, 36)
		copy(b, s) // distinct x => distinct strings of equal length (when n is long enough)
		val.SetString(string(b))
	case "slice", "array":
		els := v.L("el")
		if k == "slice" {
			if v.Bool("nil") {
				return val // nil slice
			}
			val = reflect.MakeSlice(typ, len(els), len(els))
		}
		for i, e := range els {
			if e.has("dup") {
				val.Index(i).Set(val.Index(e.Int("dup")))
				continue
			}
			val.Index(i).Set(buildValue(t.O("e"), e, typ.Elem()))
		}
	case "map":
		if v.Bool("nil") {
			return val
		}
		val = reflect.MakeMap(typ)
		for _, kv := range toList(v.get("kv")) {
			pair := toList(kv)
			kk := buildValue(t.O("key"), In{pair[0].(map[string]interface{})}, typ.Key())
			vv := buildValue(t.O("e"), In{pair[1].(map[string]interface{})}, typ.Elem())
			if val.MapIndex(kk).IsValid() {
				fatalf("size: duplicate map key in description")
			}
			val.SetMapIndex(kk, vv)
		}
	case "ptr":
		if v.Bool("nil") {
			return val
		}
		p := reflect.New(typ.Elem())
		p.Elem().Set(buildValue(t.O("e"), v.O("to"), typ.Elem()))
		val.Set(p)
	case "iface":
		if v.Bool("nil") {
			return val
		}
		dt := v.O("dt")
		dtyp := buildType(dt, v.O("dyn"))
		val.Set(buildValue(dt, v.O("dyn"), dtyp))
	case "struct":
		for i, fv := range v.L("f") {
			val.Field(i).Set(buildValue(t.L("f")[i], fv, typ.Field(i).Type))
		}
	default:
		fatalf("size: unknown kind %q", k)
	}
	return val
}

// Hand-written values of named types with unexported fields (reflect.StructOf cannot build those); each
// comes with its hand-written description, which is what the specification sees.
type sxInner struct {
	a int8
	b []int16
	c *int64
}
type sxNamedSlice []uint32
type sxOuter struct {
	flag  bool
	in    sxInner
	p     *sxInner
	names map[string]sxNamedSlice
	any   interface{}
	arr   [2]uint16
	u     uint
	up    uintptr
}

// embedded (anonymous) struct fields, by value and by pointer, and one pointer stored in two fields
type sxEmb struct {
	sxInner
	x int8
}
type sxEmbPtr struct {
	*sxInner
	y uint16
}
type sxTwoPtr struct {
	p, q *int64
	r    *sxInner
	s    *sxInner
}

type sxRec struct {
	id   int64
	name string
}
type sxSelf struct {
	id   int32
	self *int32
	pad  int8
}
type sxSelfArr struct {
	arr   [3]int16
	first *int16
}
type sxArrPtrs struct {
	a *int32
	b *[4]int32
	c *[4]int32
	d *int32
}

func staticValue(name string) (interface{}, J, J) {
	sc := func(k string) J { return J{"k": k} }
	innerT := J{"k": "struct", "f": []J{sc("int8"), {"k": "slice", "e": sc("int16")}, {"k": "ptr", "e": sc("int64")}}}
	x := int64(5)
	switch name {
	case "inner":
		v := sxInner{1, []int16{1, 2, 3}, &x}
		return v, innerT, J{"f": []J{{"x": 1}, {"nil": false, "el": []J{{"x": 1}, {"x": 2}, {"x": 3}}}, {"nil": false, "to": J{"x": 5}}}}
	case "innerptr":
		v := &sxInner{1, nil, nil}
		return v, J{"k": "ptr", "e": innerT}, J{"nil": false, "to": J{"f": []J{{"x": 1}, {"nil": true, "el": []J{}}, {"nil": true}}}}
	case "outer":
		v := sxOuter{true, sxInner{2, []int16{}, nil}, &sxInner{3, []int16{9}, &x},
			map[string]sxNamedSlice{"ab": {1, 2}, "xyz": nil}, sxNamedSlice{7}, [2]uint16{1, 2}, 3, 4}
		outerT := J{"k": "struct", "f": []J{sc("bool"), innerT, {"k": "ptr", "e": innerT},
			{"k": "map", "key": sc("string"), "e": J{"k": "slice", "e": sc("uint32")}}, sc("iface"),
			{"k": "array", "n": 2, "e": sc("uint16")}, sc("uint"), sc("uintptr")}}
		val := J{"f": []J{{"x": 1},
			{"f": []J{{"x": 2}, {"nil": false, "el": []J{}}, {"nil": true}}},
			{"nil": false, "to": J{"f": []J{{"x": 3}, {"nil": false, "el": []J{{"x": 9}}}, {"nil": false, "to": J{"x": 5}}}}},
			{"nil": false, "kv": [][]J{{{"n": 2, "x": 1}, {"nil": false, "el": []J{{"x": 1}, {"x": 2}}}}, {{"n": 3, "x": 2}, {"nil": true, "el": []J{}}}}},
			{"nil": false, "dt": J{"k": "slice", "e": sc("uint32")}, "dyn": J{"nil": false, "el": []J{{"x": 7}}}},
			{"el": []J{{"x": 1}, {"x": 2}}}, {"x": 3}, {"x": 4}}}
		return v, outerT, val
	case "emb":
		_, ti, vi := staticValue("inner")
		in, _, _ := staticValue("inner")
		return sxEmb{in.(sxInner), 1}, J{"k": "struct", "f": []J{ti, sc("int8")}}, J{"f": []J{vi, {"x": 1}}}
	case "embptr":
		_, ti, vi := staticValue("inner")
		in, _, _ := staticValue("inner")
		iv := in.(sxInner)
		return []sxEmbPtr{{&iv, 2}, {nil, 3}}, J{"k": "slice", "e": J{"k": "struct", "f": []J{{"k": "ptr", "e": ti}, sc("uint16")}}},
			J{"nil": false, "el": []J{{"f": []J{{"nil": false, "to": vi}, {"x": 2}}}, {"f": []J{{"nil": true}, {"x": 3}}}}}
	case "twoptr":
		_, ti, vi := staticValue("inner")
		in, _, _ := staticValue("inner")
		iv := in.(sxInner)
		return &sxTwoPtr{&x, &x, &iv, &iv}, J{"k": "ptr", "e": J{"k": "struct", "f": []J{{"k": "ptr", "e": sc("int64")}, {"k": "ptr", "e": sc("int64")}, {"k": "ptr", "e": ti}, {"k": "ptr", "e": ti}}}},
			J{"nil": false, "to": J{"f": []J{{"nil": false, "to": J{"x": 5}}, {"nil": false, "to": J{"x": 5}}, {"nil": false, "to": vi}, {"nil": false, "to": vi}}}}
	case "interior":
		// two pointers with the same address and different pointees: a struct and its first field
		rec := &sxRec{id: 7, name: "hello"}
		recT := J{"k": "struct", "f": []J{sc("int64"), {"k": "string"}}}
		recV := J{"f": []J{{"x": 7}, {"n": 5, "x": 1}}}
		return []interface{}{&rec.id, rec, &rec.id}, J{"k": "slice", "e": sc("iface")},
			J{"nil": false, "el": []J{
				{"nil": false, "dt": J{"k": "ptr", "e": sc("int64")}, "dyn": J{"nil": false, "to": J{"x": 7}}},
				{"nil": false, "dt": J{"k": "ptr", "e": recT}, "dyn": J{"nil": false, "to": recV}},
				{"nil": false, "dt": J{"k": "ptr", "e": sc("int64")}, "dyn": J{"nil": false, "to": J{"x": 7}}}}}
	case "interiorarr":
		// an array and its first element; a slice and its first element; the larger pointee comes second, then first
		arr := &[4]int32{1, 2, 3, 4}
		arrT := J{"k": "array", "n": 4, "e": sc("int32")}
		arrV := J{"el": []J{{"x": 1}, {"x": 2}, {"x": 3}, {"x": 4}}}
		return &sxArrPtrs{&arr[0], arr, arr, &arr[0]}, J{"k": "ptr", "e": J{"k": "struct", "f": []J{{"k": "ptr", "e": sc("int32")}, {"k": "ptr", "e": arrT}, {"k": "ptr", "e": arrT}, {"k": "ptr", "e": sc("int32")}}}},
			J{"nil": false, "to": J{"f": []J{{"nil": false, "to": J{"x": 1}}, {"nil": false, "to": arrV}, {"nil": false, "to": arrV}, {"nil": false, "to": J{"x": 1}}}}}
	case "selfptr":
		// a struct that holds a pointer to its own first field, reached through a pointer to the struct: the address
		// of the pointee is already "on the path" although nothing is cyclic
		n := &sxSelf{id: 7}
		n.self = &n.id
		st := J{"k": "struct", "f": []J{sc("int32"), {"k": "ptr", "e": sc("int32")}, sc("int8")}}
		sv := J{"f": []J{{"x": 7}, {"nil": false, "to": J{"x": 7}}, {"x": 0}}}
		return []interface{}{n, *n}, J{"k": "slice", "e": sc("iface")},
			J{"nil": false, "el": []J{{"nil": false, "dt": J{"k": "ptr", "e": st}, "dyn": J{"nil": false, "to": sv}}, {"nil": false, "dt": st, "dyn": sv}}}
	case "selfarr":
		// the same with element 0 of an array, two pointer levels down
		a := &sxSelfArr{}
		a.arr = [3]int16{1, 2, 3}
		a.first = &a.arr[0]
		pa := &a
		st := J{"k": "struct", "f": []J{{"k": "array", "n": 3, "e": sc("int16")}, {"k": "ptr", "e": sc("int16")}}}
		sv := J{"f": []J{{"el": []J{{"x": 1}, {"x": 2}, {"x": 3}}}, {"nil": false, "to": J{"x": 1}}}}
		return pa, J{"k": "ptr", "e": J{"k": "ptr", "e": st}}, J{"nil": false, "to": J{"nil": false, "to": sv}}
	case "outerslice":
		a, ta, va := staticValue("outer")
		o := a.(sxOuter)
		return []sxOuter{o, o}, J{"k": "slice", "e": ta}, J{"nil": false, "el": []J{va, va}}
	}
	fatalf("size: unknown static value %q", name)
	return nil, nil, nil
}

// Two distinct named types that print the same (package.rec), declared in two function scopes, with different
// layouts: anything keyed by a type's printed name instead of the type itself confuses them.
func sameNameA() (interface{}, J, J) {
	type rec struct {
		a int8
		b int64
	}
	t := J{"k": "slice", "e": J{"k": "struct", "f": []J{{"k": "int8"}, {"k": "int64"}}}}
	v := J{"nil": false, "el": []J{{"f": []J{{"x": 1}, {"x": 2}}}, {"f": []J{{"x": 3}, {"x": 4}}}}}
	return []rec{{1, 2}, {3, 4}}, t, v
}

func sameNameB() (interface{}, J, J) {
	type rec struct {
		a int64
		b [4]int64
		c int32
	}
	t := J{"k": "slice", "e": J{"k": "struct", "f": []J{{"k": "int64"}, {"k": "array", "n": 4, "e": J{"k": "int64"}}, {"k": "int32"}}}}
	el := J{"f": []J{{"x": 1}, {"el": []J{{"x": 1}, {"x": 2}, {"x": 3}, {"x": 4}}}, {"x": 5}}}
	return []rec{{}, {}}, t, J{"nil": false, "el": []J{el, el}}
}

// a singly linked list, the one recursive shape: described by its length (SizeOf!"chain")
type sxNode struct {
	v    int32
	next *sxNode
}

func chainValue(n int) *sxNode {
	var head *sxNode
	for i := 0; i < n; i++ {
		head = &sxNode{int32(i), head}
	}
	return head
}

func execSize(in In, em *Emitter) {
	if in.has("chain") {
		n := in.Int("chain")
		ct := J{"k": "chain", "n": n, "e": J{"k": "int32"}}
		head := chainValue(n)
		switch in.S("as") {
		case "ptr":
			sizeOne(J{"topnil": false, "chain": n, "as": "ptr", "t": J{"k": "ptr", "e": ct}, "v": J{"nil": false, "to": J{"x": 0}}}, head, em)
		case "value":
			sizeOne(J{"topnil": false, "chain": n, "as": "value", "t": ct, "v": J{"x": 0}}, *head, em)
		default: // inside an interface-typed slice element next to a scalar
			sizeOne(J{"topnil": false, "chain": n, "as": "nested", "t": J{"k": "slice", "e": J{"k": "iface"}},
				"v": J{"nil": false, "el": []J{{"nil": false, "dt": J{"k": "ptr", "e": ct}, "dyn": J{"nil": false, "to": J{"x": 0}}},
					{"nil": false, "dt": J{"k": "int8"}, "dyn": J{"x": 1}}}}}, []interface{}{head, int8(1)}, em)
		}
		return
	}
	if in.has("static") && in.S("static") == "samename" {
		// both in one process, one after the other, twice
		for _, f := range []func() (interface{}, J, J){sameNameA, sameNameB, sameNameA, sameNameB} {
			arg, t, v := f()
			sizeOne(J{"topnil": false, "static": "samename", "t": t, "v": v}, arg, em)
		}
		return
	}
	var arg interface{}
	if in.has("static") {
		var t, v J
		arg, t, v = staticValue(in.S("static"))
		in.m["t"], in.m["v"] = t, v
	} else if !in.Bool("topnil") {
		t, v := in.O("t"), in.O("v")
		typ := buildType(t, v)
		arg = buildValue(t, v, typ).Interface()
	}
	sizeOne(in.m, arg, em)
}

func sizeOne(inm J, arg interface{}, em *Emitter) {
	o := J{}
	abn := guard(func() {
		of := size.Of(arg)
		stat := int64(-7)
		if arg != nil {
			first := strings.SplitN(size.Stat(arg, 0, 0, make([]interface{}, 0, 2)...), "\n", 2)[0]
			// "the first line of Stat reports the same number": the number after the last ": " in today's format;
			// should the wording change, the last integer on the line
			i := strings.LastIndex(first, ": ")
			n, err := strconv.ParseInt(strings.TrimSpace(first[i+2:]), 10, 64)
			if err != nil {
				n = -8
				if m := lastInt.FindAllString(first, -1); len(m) > 0 {
					n, _ = strconv.ParseInt(m[len(m)-1], 10, 64)
				}
			}
			stat = n
			// deeper renderings must not panic either, and their first line is the same
			first3 := strings.SplitN(size.Stat(arg, 3, 2), "\n", 2)[0]
			if first3 != first {
				stat = -9
			}
		}
		o = J{"of": num(int64(of)), "stat": num(stat)}
	})
	em.Emit("size", J{"in": inm, "out": o, "abn": abn})
	em.Calls(3)
}

// ---- generation

var scalarKinds = []string{"bool", "int8", "uint8", "int16", "uint16", "int32", "uint32", "float32", "int64", "uint64",
	"float64", "complex64", "complex128", "int", "uint", "uintptr"}
var keyKinds = []string{"int8", "uint16", "int32", "int64", "uint64", "int", "uint", "uintptr", "string"}

type sizeGen struct {
	r   *rand.Rand
	ctr int64
}

func (sg *sizeGen) typ(depth int) J {
	r := sg.r
	if depth <= 0 || r.Intn(4) == 0 {
		if r.Intn(5) == 0 {
			return J{"k": "string"}
		}
		return J{"k": scalarKinds[r.Intn(len(scalarKinds))]}
	}
	switch r.Intn(8) {
	case 0:
		return J{"k": "slice", "e": sg.typ(depth - 1)}
	case 1:
		return J{"k": "array", "n": r.Intn(4), "e": sg.typ(depth - 1)}
	case 2:
		return J{"k": "map", "key": sg.keyType(), "e": sg.typ(depth - 1)}
	case 3:
		return J{"k": "ptr", "e": sg.typ(depth - 1)}
	case 4:
		return J{"k": "iface"}
	case 5: // all-scalar struct with fields of different widths (alignment padding is not part of the structural sum)
		n := 2 + r.Intn(3)
		f := make([]J, n)
		for i := range f {
			f[i] = J{"k": scalarKinds[r.Intn(len(scalarKinds))]}
		}
		return J{"k": "struct", "f": f}
	default:
		n := r.Intn(5)
		f := make([]J, n)
		for i := range f {
			f[i] = sg.typ(depth - 1)
		}
		return J{"k": "struct", "f": f}
	}
}

func (sg *sizeGen) keyType() J {
	r := sg.r
	switch r.Intn(6) {
	case 0:
		return J{"k": "struct", "f": []J{{"k": keyKinds[r.Intn(len(keyKinds))]}, {"k": "bool"}}}
	case 1:
		return J{"k": "array", "n": 2, "e": J{"k": keyKinds[r.Intn(len(keyKinds)-1)]}}
	}
	return J{"k": keyKinds[r.Intn(len(keyKinds))]}
}

// val draws a content for type t; uniq makes it distinct from every other one drawn so far (map keys).
func (sg *sizeGen) val(t J, depth int, uniq bool) J {
	r := sg.r
	sg.ctr++
	x := sg.ctr
	k := t["k"].(string)
	if _, ok := scalarTypes[k]; ok {
		if uniq && (k == "int8" || k == "bool") {
			x = x % 100
		}
		return J{"x": x}
	}
	switch k {
	case "string":
		n := []int{0, 1, 5, 16, 100}[r.Intn(5)]
		if uniq {
			n = 8 + r.Intn(4)
		}
		return J{"n": n, "x": x}
	case "slice", "array":
		n := r.Intn(4)
		isNil := false
		if k == "array" {
			n = t["n"].(int)
		} else if r.Intn(6) == 0 {
			n, isNil = 0, true
		}
		et := t["e"].(J)
		el := make([]J, n)
		for i := range el {
			if i > 0 && et["k"] == "ptr" && r.Intn(3) == 0 && !uniq {
				el[i] = J{"dup": r.Intn(i)} // the same pointer twice: still counted twice by a structural sum
				if _, isDup := el[el[i]["dup"].(int)]["dup"]; isDup {
					el[i] = sg.val(et, depth-1, false)
				}
				continue
			}
			el[i] = sg.val(et, depth-1, uniq && i == 0)
		}
		return J{"nil": isNil, "el": el}
	case "map":
		if r.Intn(6) == 0 {
			return J{"nil": true, "kv": [][]J{}}
		}
		n := r.Intn(4)
		kv := make([][]J, n)
		for i := range kv {
			kv[i] = []J{sg.val(t["key"].(J), 1, true), sg.val(t["e"].(J), depth-1, false)}
		}
		return J{"nil": false, "kv": kv}
	case "ptr":
		if r.Intn(4) == 0 {
			return J{"nil": true}
		}
		return J{"nil": false, "to": sg.val(t["e"].(J), depth-1, false)}
	case "iface":
		if r.Intn(4) == 0 || depth <= 0 {
			return J{"nil": true}
		}
		dt := sg.typ(depth - 1)
		for dt["k"] == "iface" {
			dt = sg.typ(depth - 1)
		}
		return J{"nil": false, "dt": dt, "dyn": sg.val(dt, depth-1, false)}
	case "struct":
		fts := t["f"].([]J)
		f := make([]J, len(fts))
		for i := range f {
			f[i] = sg.val(fts[i], depth-1, uniq && i == 0)
		}
		return J{"f": f}
	}
	fatalf("size gen: kind %q", k)
	return nil
}

func genC20(g *Gen) {
	sg := &sizeGen{r: g.R}
	g.Case("size", J{"topnil": true})
	for _, name := range []string{"inner", "innerptr", "outer", "outerslice", "emb", "embptr", "twoptr", "samename", "interior", "interiorarr", "selfptr", "selfarr"} {
		g.Case("size", J{"topnil": false, "static": name})
	}
	// ALL-ZERO values of types with alignment padding and zero-size tails (every scalar 0 / false, every string empty,
	// every pointer, slice and map nil): as an array of 1..3 elements, a slice, inside a struct, behind a pointer, in an
	// interface; and the same with one non-zero field in the last element
	{
		sc := func(k string) J { return J{"k": k} }
		padded := []struct{ t, z J }{
			{J{"k": "struct", "f": []J{sc("int8"), sc("int64"), {"k": "ptr", "e": sc("int32")}, sc("bool")}},
				J{"f": []J{{"x": 0}, {"x": 0}, {"nil": true}, {"x": 0}}}},
			{J{"k": "struct", "f": []J{sc("bool"), {"k": "ptr", "e": sc("int64")}}}, J{"f": []J{{"x": 0}, {"nil": true}}}},
			{J{"k": "struct", "f": []J{sc("string"), {"k": "array", "n": 0, "e": sc("int16")}}}, J{"f": []J{{"n": 0, "x": 0}, {"el": []J{}}}}},
			{J{"k": "struct", "f": []J{sc("uint16"), {"k": "slice", "e": sc("int64")}, sc("uint8")}}, J{"f": []J{{"x": 0}, {"nil": true, "el": []J{}}, {"x": 0}}}},
		}
		for _, pz := range padded {
			for n := 1; n <= 3; n++ {
				els := make([]J, n)
				for i := range els {
					els[i] = pz.z
				}
				arrT, arrV := J{"k": "array", "n": n, "e": pz.t}, J{"el": els}
				g.Case("size", J{"topnil": false, "t": arrT, "v": arrV})
				g.Case("size", J{"topnil": false, "t": J{"k": "slice", "e": pz.t}, "v": J{"nil": false, "el": els}})
				g.Case("size", J{"topnil": false, "t": J{"k": "ptr", "e": arrT}, "v": J{"nil": false, "to": arrV}})
				g.Case("size", J{"topnil": false, "t": J{"k": "struct", "f": []J{sc("int8"), arrT, sc("int8")}}, "v": J{"f": []J{{"x": 0}, arrV, {"x": 0}}}})
				g.Case("size", J{"topnil": false, "t": J{"k": "array", "n": 2, "e": arrT}, "v": J{"el": []J{arrV, arrV}}})
				g.Case("size", J{"topnil": false, "t": J{"k": "slice", "e": sc("iface")}, "v": J{"nil": false, "el": []J{{"nil": false, "dt": arrT, "dyn": arrV}}}})
			}
		}
	}
	// every scalar kind at top level, in a slice, an array, behind a pointer, in an interface, as map value
	for _, k := range scalarKinds {
		st := J{"k": k}
		g.Case("size", J{"topnil": false, "t": st, "v": J{"x": 3}})
		g.Case("size", J{"topnil": false, "t": J{"k": "slice", "e": st}, "v": J{"nil": false, "el": []J{{"x": 1}, {"x": 2}, {"x": 3}}}})
		g.Case("size", J{"topnil": false, "t": J{"k": "array", "n": 2, "e": st}, "v": J{"el": []J{{"x": 1}, {"x": 2}}}})
		g.Case("size", J{"topnil": false, "t": J{"k": "ptr", "e": st}, "v": J{"nil": false, "to": J{"x": 1}}})
		g.Case("size", J{"topnil": false, "t": J{"k": "ptr", "e": st}, "v": J{"nil": true}})
		g.Case("size", J{"topnil": false, "t": J{"k": "struct", "f": []J{{"k": "iface"}, st}}, "v": J{"f": []J{{"nil": false, "dt": st, "dyn": J{"x": 1}}, {"x": 2}}}})
		g.Case("size", J{"topnil": false, "t": J{"k": "map", "key": J{"k": "string"}, "e": st}, "v": J{"nil": false, "kv": [][]J{{{"n": 3, "x": 1}, {"x": 2}}, {{"n": 4, "x": 2}, {"x": 2}}}}})
	}
	// large containers with heterogeneous elements (sampling or extrapolating from the first elements would show):
	// slices of 300..5000 strings of different lengths, of pointers (some nil, some shared), a map with 300 entries
	for c := 0; c < g.N(4, 40); c++ {
		r := g.R
		n := []int{300, 1000, 1025, 5000}[c%4]
		var t, v J
		switch c % 3 {
		case 0:
			el := make([]J, n)
			for i := range el {
				sg.ctr++
				el[i] = J{"n": (i * 7) % 23, "x": sg.ctr}
			}
			t, v = J{"k": "slice", "e": J{"k": "string"}}, J{"nil": false, "el": el}
		case 1:
			el := make([]J, n)
			for i := range el {
				switch {
				case i%5 == 0:
					el[i] = J{"nil": true}
				case i > 0 && i%7 == 0 && el[i-1]["nil"] == false:
					el[i] = J{"dup": i - 1}
				default:
					el[i] = J{"nil": false, "to": J{"nil": false, "el": []J{{"x": 1}, {"x": 2}}[:r.Intn(3)]}}
				}
			}
			t, v = J{"k": "slice", "e": J{"k": "ptr", "e": J{"k": "slice", "e": J{"k": "int16"}}}}, J{"nil": false, "el": el}
		default:
			kv := make([][]J, 300)
			for i := range kv {
				sg.ctr++
				kv[i] = []J{{"n": 9, "x": sg.ctr}, {"nil": false, "el": []J{{"x": 1}, {"x": 2}, {"x": 3}}[:i%4]}}
			}
			t, v = J{"k": "map", "key": J{"k": "string"}, "e": J{"k": "slice", "e": J{"k": "uint8"}}}, J{"nil": false, "kv": kv}
		}
		g.Case("size", J{"topnil": false, "t": t, "v": v})
	}
	// long containers (around 1024 and beyond) of pointer-free elements whose fields have different widths: the
	// structural sum of such an element is smaller than its size in memory (alignment padding is not a part)
	flat := []J{
		{"k": "struct", "f": []J{{"k": "int8"}, {"k": "int64"}}},
		{"k": "struct", "f": []J{{"k": "uint16"}, {"k": "uint8"}}},
		{"k": "struct", "f": []J{{"k": "bool"}, {"k": "array", "n": 3, "e": J{"k": "uint16"}}, {"k": "uint32"}}},
		{"k": "array", "n": 3, "e": J{"k": "struct", "f": []J{{"k": "uint8"}, {"k": "uint64"}}}},
		{"k": "struct", "f": []J{{"k": "complex128"}, {"k": "bool"}}},
	}
	var flatV func(t J) J
	flatV = func(t J) J {
		switch t["k"] {
		case "struct":
			fs := t["f"].([]J)
			vs := make([]J, len(fs))
			for i := range fs {
				vs[i] = flatV(fs[i])
			}
			return J{"f": vs}
		case "array":
			el := make([]J, t["n"].(int))
			for i := range el {
				el[i] = flatV(t["e"].(J))
			}
			return J{"el": el}
		}
		sg.ctr++
		return J{"x": sg.ctr}
	}
	// linked lists of 1 .. 100,000 nodes (pointer chains deeper than any fixed recursion budget)
	for i, n := range []int{1, 2, 4095, 4096, 4097, 5000, 10000, 65537, 100000} {
		if g.Quick() && n > 10000 {
			continue
		}
		g.Case("size", J{"topnil": false, "chain": n, "as": []string{"ptr", "value", "nested"}[(i+int(g.Seed))%3]})
		if n == 4097 || n == 5000 {
			g.Case("size", J{"topnil": false, "chain": n, "as": []string{"ptr", "value", "nested"}[(i+1+int(g.Seed))%3]})
		}
	}
	// long containers (4096 and more) whose elements hold strings, slices and pointers one or two struct / array
	// levels down, every element of a different size
	for ci2, n := range []int{4096, 5000, 4095, 8200} {
		if g.Quick() && ci2 >= 2+int(g.Seed)%2 {
			continue
		}
		str, i16s := J{"k": "string"}, J{"k": "slice", "e": J{"k": "int16"}}
		ets := []J{
			{"k": "struct", "f": []J{{"k": "int8"}, {"k": "struct", "f": []J{str, i16s}}}},
			{"k": "array", "n": 2, "e": J{"k": "struct", "f": []J{{"k": "ptr", "e": J{"k": "int32"}}, str}}},
			{"k": "struct", "f": []J{{"k": "uint16"}, {"k": "array", "n": 2, "e": str}}},
		}
		et := ets[(ci2+int(g.Seed))%3]
		if !g.Mine() {
			g.Case("size", nil)
			continue
		}
		var mk func(t J, i int) J
		mk = func(t J, i int) J {
			switch t["k"] {
			case "struct":
				fs := t["f"].([]J)
				vs := make([]J, len(fs))
				for k := range fs {
					vs[k] = mk(fs[k], i+k)
				}
				return J{"f": vs}
			case "array":
				el := make([]J, t["n"].(int))
				for k := range el {
					el[k] = mk(t["e"].(J), i+3*k)
				}
				return J{"el": el}
			case "string":
				sg.ctr++
				return J{"n": (i * 7) % 23, "x": sg.ctr}
			case "slice":
				return J{"nil": i%8 == 0, "el": []J{{"x": 1}, {"x": 2}, {"x": 3}}[:i%4]} // (i%8 == 0 implies i%4 == 0: a nil slice has no elements)
			case "ptr":
				if i%5 == 0 {
					return J{"nil": true}
				}
				return J{"nil": false, "to": J{"x": i}}
			}
			return J{"x": i}
		}
		el := make([]J, n)
		for i := range el {
			el[i] = mk(et, i)
		}
		g.Case("size", J{"topnil": false, "t": J{"k": "slice", "e": et}, "v": J{"nil": false, "el": el}})
	}
	ci := 0
	for _, n := range []int{255, 256, 1023, 1024, 1500, 4096, 65536} {
		if n == 65536 && g.Quick() {
			continue
		}
		for fi, et := range flat {
			ci++
			if g.Quick() && (ci+int(g.Seed))%2 == 0 && n != 1024 {
				continue
			}
			if !g.Mine() {
				g.Case("size", nil)
				continue
			}
			el := make([]J, n)
			for i := range el {
				el[i] = flatV(et)
			}
			if (fi+n)%2 == 0 {
				g.Case("size", J{"topnil": false, "t": J{"k": "slice", "e": et}, "v": J{"nil": false, "el": el}})
			} else {
				g.Case("size", J{"topnil": false, "t": J{"k": "ptr", "e": J{"k": "array", "n": n, "e": et}}, "v": J{"nil": false, "to": J{"el": el}}})
			}
		}
	}
	for c := 0; c < g.N(2500, 100000); c++ {
		depth := 1 + g.R.Intn(g.N(4, 6))
		t := sg.typ(depth)
		for t["k"] == "iface" { // an interface value cannot be passed as such: Of(interface{}) sees its dynamic value
			t = sg.typ(depth)
		}
		g.Case("size", J{"topnil": false, "t": t, "v": sg.val(t, depth, false)})
	}
}
