package main

// C19: purity and safety for concurrent readers. One case = one set of shared inputs; a cold
// concurrent phase (G goroutines released together, each running the whole call list in its own
// order), snapshots of every shared object and exported table, and sequential phases.

import (
	"crypto/sha256"
	"encoding/hex"
	"encoding/json"
	"fmt"
	"io/ioutil"
	"math/rand"
	"os"
	"path/filepath"
	"reflect"
	"runtime"
	"sort"
	"strings"
	"sync"

	"github.com/openacid/low/bitmap"
	"github.com/openacid/low/bitstr"
	"github.com/openacid/low/bitword"
	"github.com/openacid/low/bmtree"
	"github.com/openacid/low/sigbits"
)

func init() {
	props["C19"] = &Prop{Gen: genC19, Exec: map[string]func(in In, em *Emitter){"conc": execConc}}
}

func digest(v interface{}) string {
	b, err := json.Marshal(v)
	if err != nil {
		fatalf("digest: %v", err)
	}
	h := sha256.Sum256(b)
	return hex.EncodeToString(h[:8])
}

type call struct {
	id string
	fn func() interface{}
}

type shared struct {
	bm, bm2           []uint64
	bmFull            []uint64
	r64, r128         []int32
	sidx, sidx2, ridx []int32
	keys              []string
	sb                *sigbits.SigBits
	plainA            [][]byte
	plainBase         [][]byte // per plainFull entry: the longest view handed out (everything behind it is neighbour memory)
	strA              []string
	enc               [][]byte
	paths             []uint64
	masks             []int32
	decBM             [][]uint64
	decFull           [][]uint64
	vals              []uint64
	// byte-slice arguments are views of larger shared arrays whose full contents are in every snapshot
	plainFull [][]byte
	wordsFull []byte // n-bit words (values < 2) for bitword.ToStr: prefixes of every length are passed
	// seeded argument lists: a different argument class per case
	sliceArgs [][2]int32
	scanArgs  [][2]int32
	fsArgs    [][2]int32
	apArgs    [][2]uint64
	fdArgs    [][2]int
	// same function, arguments that differ in one place only (what a memo slot or a per-size cache confuses):
	// several tree sizes of ONE height, with one bitmap long enough for all of them
	hamMasks [][]int32
	hamBM    []uint64
	groups   map[string][]int // group name -> indexes into ham: hammered concurrently in a tight loop
	ham      []call
}

func mkShared(r *rand.Rand) *shared {
	s := &shared{}
	s.bmFull = patWords(r, 6+r.Intn(4)+2, 0.1)
	s.bm = s.bmFull[:len(s.bmFull)-2] // a view: two more words with 1-bits lie behind it
	s.bmFull[len(s.bm)] |= 1 | 1<<63
	s.bmFull[len(s.bm)+1] |= 1      // (bit 0 of every neighbour word / byte is set: the neighbour writer stores x|1 = x)
	s.bm[0] |= 0x8000000000000421   // bits around the edges of word 0
	s.bm[1] |= 1<<63 | 1<<3 | 1<<36 // 1-bits after any unaligned slice end inside word 1
	s.bm2 = patWords(r, 3, 0)
	s.r64 = bitmap.IndexRank64(s.bm, true)
	s.r128 = bitmap.IndexRank128(s.bm)
	s.sidx = bitmap.IndexSelect32(s.bm)
	s.sidx2, s.ridx = bitmap.IndexSelect32R64(s.bm)
	s.keys = keySet(r, 12)
	for len(s.keys) < 3 {
		s.keys = keySet(r, 12)
	}
	s.sb = sigbits.New(s.keys)
	for i := 0; i < 6; i++ {
		src := bsString(r, 3+r.Intn(12))
		to := r.Intn(8*len(src) + 1)
		s.enc = append(s.enc, bitstr.New(string(src), 0, int32(to)))
		a := append([]byte{}, src...)
		if r.Intn(2) == 0 {
			a = append(a, bsString(r, r.Intn(4))...)
		}
		full := append(append([]byte{}, a...), 0xff, 0x81, 0x7f, 0xff, 0xff, 0xff, 0xff, 0xff, 0xff, 0xff, 0xff, 0xff, 0xff) // the view's neighbours are non-zero
		s.plainFull = append(s.plainFull, full)
		s.plainBase = append(s.plainBase, full[:len(a)])
		s.plainA = append(s.plainA, full[:len(a)])
		s.strA = append(s.strA, string(append([]byte{}, a...))) // heap strings
		if i%2 == 0 {                                           // the empty key and a short byte-prefix of the encoded string, as views with plenty of memory behind them
			k := r.Intn(4)
			s.plainA = append(s.plainA, full[:0], full[:k])
			s.strA = append(s.strA, "", string(append([]byte{}, a[:k]...)))
		}
	}
	for _, h := range []int{3, 5, 8, 9, 12} {
		top := int32(1) << uint(h)
		m := top | int32(r.Intn(int(top)))
		if h == 5 {
			m = top<<1 - 1
		}
		s.masks = append(s.masks, m)
		// the bitmap handed to Decode is a view of a larger shared array: exact, too short, or empty
		need := int(m+63) / 64
		full := patWords(r, need+2, 0.3)
		full[need] |= 1 << uint(r.Intn(64))
		full[need+1] |= 1 << uint(r.Intn(64))
		k := need
		switch len(s.masks) % 3 {
		case 1:
			k = r.Intn(need + 1) // too short: the words behind it belong to somebody else
		case 2:
			if need > 0 {
				k = need - 1
			}
		}
		s.decFull = append(s.decFull, full)
		s.decBM = append(s.decBM, full[:k])
	}
	for _, h := range []int{8, 9, 10} {
		top := int32(1) << uint(h)
		ms := []int32{top<<1 - 1, top | 1<<uint(h-1) | 1<<uint(h-2) | 1, top | int32(r.Intn(int(top))), top | int32(r.Intn(int(top)))}
		s.hamMasks = append(s.hamMasks, ms)
	}
	s.hamBM = patWords(r, 1<<11/64, 0.3)
	for i := 0; i < 20; i++ {
		h := 12
		nd := randNode(r, h)
		s.paths = append(s.paths, mkPath(h, int(nd[0]), nd[1]))
	}
	for i := 0; i < 40; i++ {
		s.vals = append(s.vals, r.Uint64())
	}
	s.wordsFull = make([]byte, 40)
	for i := range s.wordsFull {
		s.wordsFull[i] = 1 // valid for every width, and non-zero behind every prefix
	}
	n := int32(len(s.bm) * 64)
	al := func() int32 { return int32(r.Intn(len(s.bm)+1)) * 64 }
	un := func() int32 { return int32(r.Intn(int(n) + 1)) }
	pair := func(a, b int32) [2]int32 {
		if a > b {
			a, b = b, a
		}
		return [2]int32{a, b}
	}
	// every alignment class of (from, to): aligned/unaligned, unaligned/aligned, aligned/aligned, unaligned/unaligned, empty
	s.sliceArgs = [][2]int32{pair(al(), un()), pair(un(), al()), pair(al(), al()), pair(un(), un()), {64, 64 + int32(1+r.Intn(63))}, {al(), n}}
	x := un()
	s.sliceArgs = append(s.sliceArgs, [2]int32{x, x})
	for i := 0; i < 8; i++ {
		a, b := un(), un()
		p := pair(a, b)
		if p[0] >= n {
			p[0] = n - 1
		}
		if p[1] < 1 {
			p[1] = 1
		}
		if p[0] > p[1] {
			p[0] = p[1]
		}
		s.scanArgs = append(s.scanArgs, p)
	}
	for i := 0; i < 6; i++ {
		s.fsArgs = append(s.fsArgs, [2]int32{int32(r.Intn(80)), int32(r.Intn(33))})
	}
	for i := 0; i < 4; i++ {
		a, b := r.Uint64()>>uint(r.Intn(40)), r.Uint64()>>uint(r.Intn(40))
		if a > b {
			a, b = b, a
		}
		s.apArgs = append(s.apArgs, [2]uint64{a, b})
	}
	for i := 0; i < 6; i++ {
		s.fdArgs = append(s.fdArgs, [2]int{r.Intn(12), r.Intn(40) - 1})
	}
	return s
}

// tables digests the exported package tables and, through the verif hooks, the unexported ones.
func (s *shared) tables() J {
	bwKeys := []int{}
	for k := range bitword.BitWord {
		bwKeys = append(bwKeys, k)
	}
	sort.Ints(bwKeys)
	return J{"tabMask": digest(bitmap.Mask[:]), "tabRMask": digest(bitmap.RMask[:]), "tabMaskUpto": digest(bitmap.MaskUpto[:]),
		"tabRMaskUpto": digest(bitmap.RMaskUpto[:]), "tabBit": digest(bitmap.Bit[:]), "tabRBit": digest(bitmap.RBit[:]),
		"tabBitWord": digest(bwKeys), "hooked": hookedTables()}
}

// snapshot digests every shared input object.
func (s *shared) snapshot() J {
	bwKeys := []int{}
	for k := range bitword.BitWord {
		bwKeys = append(bwKeys, k)
	}
	sort.Ints(bwKeys)
	return J{
		"bm": digest(s.bm), "bmFull": digest(s.bmFull), "bm2": digest(s.bm2), "r64": digest(s.r64), "r128": digest(s.r128),
		"sidx": digest(s.sidx), "sidx2": digest(s.sidx2), "ridx": digest(s.ridx),
		"keys": digest(s.keys), "plainA": digest(s.plainA), "plainFull": digest(s.plainFull), "wordsFull": digest(s.wordsFull), "strA": digest(s.strA), "enc": digest(s.enc),
		"paths": digest(s.paths), "masks": digest(s.masks), "decBM": digest(s.decBM), "decFull": digest(s.decFull), "vals": digest(s.vals),
		"hamMasks": digest(s.hamMasks), "hamBM": digest(s.hamBM),
	}
}

func (s *shared) calls() []call {
	n := int32(len(s.bm) * 64)
	nones := int32(0)
	for _, w := range s.bm {
		for ; w != 0; w &= w - 1 {
			nones++
		}
	}
	cs := []call{
		{"Rank64", func() interface{} {
			var r []int32
			for i := int32(0); i < n; i += 7 {
				a, b := bitmap.Rank64(s.bm, s.r64, i)
				r = append(r, a, b)
			}
			return r
		}},
		{"Rank128", func() interface{} {
			var r []int32
			for i := int32(0); i < n; i += 5 {
				a, b := bitmap.Rank128(s.bm, s.r128, i)
				r = append(r, a, b)
			}
			return r
		}},
		{"Select32", func() interface{} {
			var r []int32
			for i := int32(0); i < nones; i += 3 {
				a, b := bitmap.Select32(s.bm, s.sidx, i)
				r = append(r, a, b)
			}
			return r
		}},
		{"Select32R64", func() interface{} {
			var r []int32
			for i := int32(0); i < nones; i += 3 {
				a, b := bitmap.Select32R64(s.bm, s.sidx2, s.ridx, i)
				r = append(r, a, b)
			}
			return r
		}},
		{"NextPrev", func() interface{} {
			var r []int32
			for i := int32(0); i < n; i += 37 {
				r = append(r, bitmap.NextOne(s.bm, i, n), bitmap.PrevOne(s.bm, 0, i+1))
			}
			return r
		}},
		{"SliceAligned", func() interface{} {
			return [][]uint64{bitmap.Slice(s.bm, 64, 67), bitmap.Slice(s.bm, 0, 5), bitmap.Slice(s.bm, 64, 64+36)}
		}},
		{"SliceSeeded", func() interface{} {
			var r [][]uint64
			for _, a := range s.sliceArgs {
				r = append(r, bitmap.Slice(s.bm, a[0], a[1]))
			}
			return r
		}},
		{"NextPrevSeeded", func() interface{} {
			var r []int32
			for _, a := range s.scanArgs {
				r = append(r, bitmap.NextOne(s.bm, a[0], a[1]), bitmap.PrevOne(s.bm, a[0], a[1]))
			}
			return r
		}},
		{"FromStr32Seeded", func() interface{} {
			var r []uint64
			for _, k := range s.keys {
				for _, a := range s.fsArgs {
					l, v := bitmap.FromStr32(k, a[0], a[0]+a[1])
					r = append(r, uint64(l), v, bmtree.PathOf(k, a[0], a[1]))
				}
			}
			return r
		}},
		{"AllPathsSeeded", func() interface{} {
			var r [][]uint64
			for i, a := range s.apArgs {
				m := s.masks[i%3] // heights 3, 5, 8: small outputs
				r = append(r, bmtree.AllPaths(m, a[0], a[1]), bmtree.AllPaths(m, 0, a[1]))
			}
			return r
		}},
		// ranges ending exactly at the right-most leaf and whole ranges, as two calls: whichever runs first must not
		// change what the other returns
		{"AllPathsUptoLastLeaf", func() interface{} {
			var r [][]uint64
			for _, m := range s.masks[:3] {
				h := bmtree.Height(m)
				last := bmtree.NewPath(1<<uint(h)-1, h, h)
				r = append(r, bmtree.AllPaths(m, 0, last), bmtree.AllPaths(m, last, last), bmtree.AllPaths(m, last, last+1))
			}
			return r
		}},
		{"AllPathsWhole", func() interface{} {
			var r [][]uint64
			for _, m := range s.masks[:3] {
				r = append(r, bmtree.AllPaths(m, 0, 1<<63), bmtree.AllPaths(m, 0, ^uint64(0)))
			}
			return r
		}},
		{"FirstDiffSeeded", func() interface{} {
			var r []int
			for _, w := range []int{1, 2, 4, 8} {
				for _, a := range s.fdArgs {
					r = append(r, bitword.BitWord[w].FirstDiff(s.keys[0], s.keys[1], a[0], a[1]), bitword.BitWord[w].FirstDiff(s.keys[1], s.keys[2], a[0], a[1]))
				}
			}
			return r
		}},
		{"GetwAll", func() interface{} {
			var r []uint64
			for _, w := range []int32{1, 2, 4, 8, 16, 32, 64} {
				for i := int32(0); i < int32(len(s.bm))*64/w; i += 1 + int32(len(s.bm))*8/w {
					r = append(r, bitmap.Getw(s.bm, i, w))
				}
			}
			return r
		}},
		{"SliceUnaligned", func() interface{} { return [][]uint64{bitmap.Slice(s.bm, 3, 131), bitmap.Slice(s.bm, 70, 200)} }},
		{"ToArray", func() interface{} { return bitmap.ToArray(s.bm2) }},
		{"Index", func() interface{} {
			a, b := bitmap.IndexSelect32R64(s.bm)
			return [][]int32{bitmap.IndexRank64(s.bm), bitmap.IndexRank128(s.bm), bitmap.IndexSelect32(s.bm), a, b}
		}},
		{"JoinGetw", func() interface{} {
			var r []uint64
			for _, w := range []int32{1, 4, 16, 64} {
				j := bitmap.Join(s.vals, w)
				for i := range s.vals {
					r = append(r, bitmap.Getw(j, int32(i), w))
				}
			}
			return r
		}},
		{"Get", func() interface{} {
			var r []uint64
			for i := int32(-3); i < n+3; i += 11 {
				r = append(r, bitmap.SafeGet(s.bm, i), bitmap.SafeGet1(s.bm, i))
				if i >= 0 && i < n {
					r = append(r, bitmap.Get(s.bm, i), bitmap.Get1(s.bm, i))
				}
			}
			return r
		}},
		{"FromStr32", func() interface{} {
			var r []uint64
			for _, k := range s.keys {
				for f := int32(0); f < 20; f += 3 {
					l, v := bitmap.FromStr32(k, f, f+17)
					r = append(r, uint64(l), v)
				}
			}
			return r
		}},
		{"PathsOf", func() interface{} { return bmtree.PathsOf(s.keys, 3, 12, true) }},
		{"PathToIndex", func() interface{} {
			var r []int32
			for _, p := range s.paths {
				a, b := bmtree.PathToIndexLoose(s.masks[4], p)
				r = append(r, a, b, bmtree.PathToIndex(1<<13-1, p))
			}
			return r
		}},
		{"IndexToPath", func() interface{} {
			var r []uint64
			for x := int32(0); x < 2000; x += 13 {
				r = append(r, bmtree.IndexToPath(12, x), bmtree.IndexToPath(30, x*1000))
			}
			return r
		}},
		{"PathAcc", func() interface{} {
			var r []string
			for _, p := range s.paths {
				r = append(r, fmt.Sprint(bmtree.PathLen(p), bmtree.PathHeight(p), bmtree.PathBits(p), bmtree.PathMask(p), bmtree.PathStr(p)))
			}
			return r
		}},
		{"BitStrCmp", func() interface{} {
			var r []int
			for i := range s.enc {
				for j := range s.enc {
					r = append(r, bitstr.Cmp(s.enc[i], s.enc[j]))
				}
				r = append(r, int(bitstr.Len(s.enc[i])))
			}
			return r
		}},
		{"BitStrUpto", func() interface{} {
			var r []int
			for i := range s.enc {
				for j := range s.plainA {
					r = append(r, bitstr.CmpUpto(s.plainA[j], s.enc[i]), bitstr.StrCmpUpto(s.strA[j], s.enc[i]))
				}
			}
			return r
		}},
		{"BitWord", func() interface{} {
			var r []interface{}
			for _, w := range []int{1, 2, 4, 8} {
				bw := bitword.BitWord[w]
				ws := bw.FromStrs(s.keys)
				r = append(r, ws, bw.ToStrs(ws), bw.FirstDiff(s.keys[0], s.keys[1], 0, -1))
				if len(s.keys[1]) > 0 {
					r = append(r, bw.Get(s.keys[1], 0))
				}
			}
			return r
		}},
		{"ToStrPrefixes", func() interface{} { // ToStr on prefixes of one shared word slice: partial last bytes, spare capacity
			var r []string
			for _, w := range []int{1, 2, 4, 8} {
				for _, l := range []int{0, 1, 3, 5, 7, 8, 9, 13, 31} {
					r = append(r, bitword.BitWord[w].ToStr(s.wordsFull[:l]))
				}
			}
			return r
		}},
		{"FirstDiffBits", func() interface{} { return sigbits.FirstDiffBits(s.keys) }},
		{"ShardByPrefix", func() interface{} {
			a, b := sigbits.ShardByPrefix(s.keys, 3)
			return [][]int32{a, b}
		}},
		{"AllPaths", func() interface{} { return bmtree.AllPaths(s.masks[1], 0, 1<<63) }},
	}
	// CountPrefixes on the one shared SigBits object, with different maxitem per call
	for _, m := range []int32{64, 3, 17} {
		m := m
		cs = append(cs, call{fmt.Sprintf("CountPrefixes%d", m), func() interface{} {
			a, b := s.sb.CountPrefixes(0, int32(len(s.keys)), m)
			return []interface{}{a, b}
		}})
	}
	// Decode with different bitmap sizes: concurrent calls differ in their arguments
	for i := range s.masks {
		i := i
		cs = append(cs, call{fmt.Sprintf("Decode%d", i), func() interface{} { return bmtree.Decode(s.masks[i], s.decBM[i]) }})
	}
	// ---- variant groups: one function, arguments differing in one place (several sizes of one height, several
	// ranges of one size, several heights with one index, ...). Per group all goroutines hammer the group's calls
	// at once in a tight loop (execConc, hammer phase); each call is also made sequentially afterwards.
	s.groups = map[string][]int{}
	s.ham = nil
	grp := func(g, id string, fn func() interface{}) {
		s.groups[g] = append(s.groups[g], len(s.ham))
		s.ham = append(s.ham, call{"H:" + g + ":" + id, fn})
	}
	for hi, ms := range s.hamMasks {
		h := bmtree.Height(ms[0])
		for mi, m := range ms {
			m := m
			g := fmt.Sprintf("h%d", h)
			grp("Decode"+g, fmt.Sprint(mi), func() interface{} { return bmtree.Decode(m, s.hamBM) })
			grp("AllPaths"+g, fmt.Sprint(mi), func() interface{} {
				last := bmtree.NewPath(1<<uint(h)-1, h, h)
				return [][]uint64{bmtree.AllPaths(m, 0, 1<<63), bmtree.AllPaths(m, 0, last), bmtree.AllPaths(m, last>>1, last)}
			})
			grp("PathToIndex"+g, fmt.Sprint(mi), func() interface{} {
				var r []int32
				for x := int32(0); x < int32(1)<<uint(h); x += 37 {
					p := bmtree.NewPath(uint64(x), h, h)
					a, b := bmtree.PathToIndexLoose(m, p)
					r = append(r, a, b)
				}
				return r
			})
		}
		_ = hi
	}
	for _, h := range []int32{4, 5, 11, 12, 29, 30} {
		h := h
		grp("IndexToPath", fmt.Sprint(h), func() interface{} {
			var r []uint64
			for _, x := range []int32{0, 1, 2, 7, 15, 16, 30, 31} {
				r = append(r, bmtree.IndexToPath(h, x))
			}
			return r
		})
	}
	for _, ms := range []int32{1, 2, 3, 5} {
		ms := ms
		grp("ShardByPrefix", fmt.Sprint(ms), func() interface{} {
			a, b := sigbits.ShardByPrefix(s.keys, ms)
			return [][]int32{a, b}
		})
	}
	for e := int32(2); e <= int32(len(s.keys)) && e < 7; e++ {
		e := e
		grp("CountPrefixes", fmt.Sprint(e), func() interface{} {
			a, b := s.sb.CountPrefixes(0, e, 9)
			return []interface{}{a, b}
		})
	}
	for i, a := range s.sliceArgs {
		a := a
		grp("Slice", fmt.Sprint(i), func() interface{} { return bitmap.Slice(s.bm, a[0], a[1]) })
	}
	return cs
}

func runCall(c call) (d string) {
	defer func() {
		if r := recover(); r != nil {
			d = "panic:" + fmt.Sprint(r)
		}
	}()
	res := c.fn()
	d = digest(res)
	scribble(reflect.ValueOf(res)) // a caller may do what it likes with what it got back
	return d
}

// inputRanges holds the address ranges of the shared inputs of the running case: a returned slice that
// overlaps one of them (a function may legitimately hand back part of its argument) is left alone, since
// writing to it would be the driver, not the library, modifying a shared input.
var inputRanges [][2]uintptr

func addInputRange(v reflect.Value) {
	switch v.Kind() {
	case reflect.Slice:
		if v.Len() > 0 || v.Cap() > 0 {
			sz := v.Type().Elem().Size()
			inputRanges = append(inputRanges, [2]uintptr{v.Pointer(), v.Pointer() + uintptr(v.Cap())*sz})
		}
		if k := v.Type().Elem().Kind(); k == reflect.Slice {
			for i := 0; i < v.Len(); i++ {
				addInputRange(v.Index(i))
			}
		}
	}
}

func overlapsInput(v reflect.Value) bool {
	if v.Len() == 0 {
		return false
	}
	lo := v.Pointer()
	hi := lo + uintptr(v.Len())*v.Type().Elem().Size()
	for _, r := range inputRanges {
		if lo < r[1] && r[0] < hi {
			return true
		}
	}
	return false
}

// scribble overwrites every element of every slice reachable from a returned value: a returned slice
// belongs to the caller; if the library kept an alias to it, later results change.
func scribble(v reflect.Value) {
	switch v.Kind() {
	case reflect.Interface, reflect.Ptr:
		if !v.IsNil() {
			scribble(v.Elem())
		}
	case reflect.Slice:
		if overlapsInput(v) {
			return
		}
		for i := 0; i < v.Len(); i++ {
			e := v.Index(i)
			switch e.Kind() {
			case reflect.Slice, reflect.Interface, reflect.Ptr:
				scribble(e)
			case reflect.Int, reflect.Int8, reflect.Int16, reflect.Int32, reflect.Int64:
				if e.CanSet() {
					e.SetInt(e.Int() ^ 0x55)
				}
			case reflect.Uint, reflect.Uint8, reflect.Uint16, reflect.Uint32, reflect.Uint64:
				if e.CanSet() {
					e.SetUint(e.Uint() ^ 0x55)
				}
			}
		}
	}
}

func raceReports() string {
	lp := os.Getenv("VERIF_RACE_LOG")
	if lp == "" {
		return ""
	}
	files, _ := filepath.Glob(lp + ".*")
	var sb strings.Builder
	for _, f := range files {
		b, _ := ioutil.ReadFile(f)
		sb.Write(b)
		os.Remove(f)
	}
	return sb.String()
}

func execConc(in In, em *Emitter) {
	r := rand.New(rand.NewSource(in.I("seed")))
	G, rounds := in.Int("g"), in.Int("rounds")
	s := mkShared(r)
	inputRanges = nil
	for _, x := range []interface{}{s.bm, s.bmFull, s.bm2, s.r64, s.r128, s.sidx, s.sidx2, s.ridx, s.plainA, s.plainFull, s.wordsFull, s.enc, s.paths, s.masks, s.decBM, s.decFull, s.vals, s.hamBM} {
		addInputRange(reflect.ValueOf(x))
	}
	raceReports() // drop anything older
	em.Emit("Init", J{"mem": s.snapshot()})
	cs := s.calls()
	// ---- cold concurrent phase first (before any sequential warm-up)
	orders := make([][]int, G)
	for g := range orders {
		o := r.Perm(len(cs))
		if g == 0 {
			for i := range o {
				o[i] = i
			}
		}
		if g == 1 {
			for i := range o {
				o[i] = len(cs) - 1 - i
			}
		}
		orders[g] = o
	}
	type rec struct {
		call string
		d    string
	}
	logs := make([][]rec, G)
	var wg sync.WaitGroup
	start := make(chan struct{})
	for g := 0; g < G; g++ {
		wg.Add(1)
		go func(g int) {
			defer wg.Done()
			<-start
			for rd := 0; rd < rounds; rd++ {
				for _, ci := range orders[g] {
					logs[g] = append(logs[g], rec{cs[ci].id, runCall(cs[ci])})
				}
			}
		}(g)
	}
	// One more goroutine keeps storing (unchanged values) into the memory BEHIND the shared views while the readers
	// run: a reader that looks beyond the length of its argument conflicts with it, which the race detector reports.
	stop := make(chan struct{})
	var nwg sync.WaitGroup
	nwg.Add(1)
	go func() {
		defer nwg.Done()
		<-start
		for {
			select {
			case <-stop:
				return
			default:
			}
			for i := len(s.bm); i < len(s.bmFull); i++ {
				s.bmFull[i] = s.bmFull[i] | 1
			}
			for i, full := range s.plainFull {
				for j := len(s.plainBase[i]); j < len(full); j++ {
					full[j] |= 0x01
				}
			}
			runtime.Gosched()
		}
	}()
	close(start)
	wg.Wait()
	close(stop)
	nwg.Wait()
	// merge the per-goroutine logs (any merge respecting each goroutine's order is valid: readers commute)
	for i := 0; ; i++ {
		any := false
		for g := 0; g < G; g++ {
			if i < len(logs[g]) {
				em.Emit("Start", J{"g": g, "seq": i, "call": logs[g][i].call})
				any = true
			}
		}
		for g := 0; g < G; g++ {
			if i < len(logs[g]) {
				em.Emit("Finish", J{"g": g, "seq": i, "call": logs[g][i].call, "r": logs[g][i].d})
			}
		}
		if !any {
			break
		}
	}
	em.Calls(G * rounds * len(cs))
	// ---- hammer phase: per variant group all goroutines loop over the group's calls at once, each from its own
	// starting point. One Start/Finish pair is logged per distinct (goroutine, call, result): a result that
	// differs even once from what the call returns elsewhere is rejected by the trace specification.
	gnames := make([]string, 0, len(s.groups))
	for gn := range s.groups {
		gnames = append(gnames, gn)
	}
	sort.Strings(gnames)
	iters := in.Int("hammer")
	for _, gn := range gnames {
		idx := s.groups[gn]
		seen := make([]map[[2]string]bool, G)
		var hw sync.WaitGroup
		go2 := make(chan struct{})
		for g := 0; g < G; g++ {
			seen[g] = map[[2]string]bool{}
			hw.Add(1)
			go func(g int) {
				defer hw.Done()
				<-go2
				for it := 0; it < iters; it++ {
					c := s.ham[idx[(it+g)%len(idx)]]
					seen[g][[2]string{c.id, runCall(c)}] = true
				}
			}(g)
		}
		close(go2)
		hw.Wait()
		for g := 0; g < G; g++ {
			ks := make([][2]string, 0, len(seen[g]))
			for k := range seen[g] {
				ks = append(ks, k)
			}
			sort.Slice(ks, func(a, b int) bool { return ks[a][0]+ks[a][1] < ks[b][0]+ks[b][1] })
			for i, k := range ks {
				em.Emit("Start", J{"g": g, "seq": -1 - i, "call": k[0]})
				em.Emit("Finish", J{"g": g, "seq": -1 - i, "call": k[0], "r": k[1]})
			}
		}
		em.Calls(G * iters)
	}
	if rep := raceReports(); rep != "" {
		if len(rep) > 1500 {
			rep = rep[:1500]
		}
		em.Emit("RaceReport", J{"text": rep})
	}
	em.Emit("Snapshot", J{"mem": s.snapshot(), "tabs": s.tables()})
	// ---- sequential phases: forward, reverse; a snapshot after every call of the forward pass
	for _, c := range cs {
		em.Emit("SeqCall", J{"call": c.id, "r": runCall(c), "dir": "fwd"})
		em.Emit("Snapshot", J{"mem": s.snapshot(), "tabs": s.tables()})
	}
	for i := len(cs) - 1; i >= 0; i-- {
		em.Emit("SeqCall", J{"call": cs[i].id, "r": runCall(cs[i]), "dir": "rev"})
	}
	for _, c := range s.ham {
		em.Emit("SeqCall", J{"call": c.id, "r": runCall(c), "dir": "fwd"})
	}
	em.Calls(2*len(cs) + len(s.ham))
	em.Emit("Snapshot", J{"mem": s.snapshot(), "tabs": s.tables()})
}

func genC19(g *Gen) {
	for c := 0; c < g.N(24, 400); c++ {
		g.Case("conc", J{"seed": g.R.Int63n(1 << 40), "g": 8, "rounds": g.N(3, 6), "hammer": g.N(60, 300)})
	}
}
