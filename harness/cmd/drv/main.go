// Command drv drives the real openacid/low code and records what it does as
// ndjson traces that the TLA+ trace specifications under /verif/spec judge.
//
// It contains no oracle: it generates inputs, calls the library and projects
// machine values into JSON that TLC can read (see proj.go).
//
//	drv record -prop C15 -seed 1 -tier quick -out DIR -shard k -of K
//	    enumerate the property's cases, execute those with index%K == k,
//	    write DIR/k.cases.ndjson (inputs), DIR/k.ndjson (trace), DIR/k.meta.json
//	drv one -prop C15 -in case.json -out trace.ndjson
//	    execute exactly the cases found in case.json (one JSON case per line)
//	drv replay -prop C15 -in behaviours.ndjson -out DIR -shard k -of K
//	    execute cases produced by TLC (GEN engine): same as "one" but sharded and with meta
package main

import (
	"bufio"
	"crypto/sha256"
	"encoding/hex"
	"encoding/json"
	"flag"
	"fmt"
	"math/rand"
	"os"
	"path/filepath"
	"sort"
	"strings"
	"sync"
	"sync/atomic"
	"time"
)

// A Prop describes how one property is driven.
type Prop struct {
	// Gen enumerates cases: structured families first, then seeded random ones.
	Gen func(g *Gen)
	// Exec maps a case kind to its executor. An executor calls the library and
	// emits one or more trace events.
	Exec map[string]func(in In, em *Emitter)
	// Trivial says whether a case is trivial (not counted in distinct_nontrivial).
	Trivial func(k string, in In) bool
}

var props = map[string]*Prop{}

// Gen hands out cases during enumeration.
type Gen struct {
	R      *rand.Rand
	Tier   string
	Seed   int64
	shard  int
	of     int
	n      int
	accept func(c *Case)
}

// Quick reports whether the quick tier is being generated.
func (g *Gen) Quick() bool { return g.Tier != "thorough" }

// N picks the quick or thorough size.
func (g *Gen) N(quick, thorough int) int {
	if g.Quick() {
		return quick
	}
	return thorough
}

// Case registers one case; it is executed only when it belongs to this shard.
func (g *Gen) Case(kind string, in J) {
	i := g.n
	g.n++
	if g.of > 1 && i%g.of != g.shard {
		return
	}
	g.accept(&Case{ID: i, K: kind, In: in})
}

// Mine tells whether the next case would be executed by this shard. Generators
// may use it to skip building expensive inputs; they must still consume the
// same random numbers in every shard.
func (g *Gen) Mine() bool { return g.of <= 1 || g.n%g.of == g.shard }

// Case is the replayable description of an execution: inputs only.
type Case struct {
	ID int    `json:"c"`
	K  string `json:"k"`
	In J      `json:"in"`
}

// Emitter writes trace events.
type Emitter struct {
	w       *bufio.Writer
	cur     *Case
	events  int
	calls   int64
	scanned int64
}

// Emit writes one trace line: the case id, step number, event kind and the fields of ev.
func (em *Emitter) Emit(kind string, ev J) {
	ev["c"] = em.cur.ID
	ev["k"] = kind
	if _, ok := ev["abn"]; !ok {
		ev["abn"] = ""
	}
	b, err := json.Marshal(ev)
	if err != nil {
		fatalf("marshal event: %v", err)
	}
	em.w.Write(b)
	em.w.WriteByte('\n')
	em.events++
}

// Calls adds to the count of judged library calls.
func (em *Emitter) Calls(n int) { em.calls += int64(n) }

// Scanned adds to the count of library calls made by an input selector (not judged by TLC).
func (em *Emitter) Scanned(n int64) { em.scanned += n }

func fatalf(f string, a ...interface{}) {
	fmt.Fprintf(os.Stderr, "drv: "+f+"\n", a...)
	os.Exit(4) // 2 is what the Go runtime uses for fatal errors inside the library (out of memory, stack overflow)
}

// ---- watchdog: a library call that does not return is a behaviour, not a framework fault.

var (
	wdMu       sync.Mutex
	wdStart    int64 // unix nano of the start of the running case, 0 when idle
	wdEm       *Emitter
	hangLimit  = 25 * time.Second
	pendingF   *os.File
	casesW     *bufio.Writer
	hangExit   = 3
	wdDisabled bool
)

func watchdog() {
	for {
		time.Sleep(500 * time.Millisecond)
		st := atomic.LoadInt64(&wdStart)
		if st == 0 || wdDisabled {
			continue
		}
		if time.Since(time.Unix(0, st)) > hangLimit {
			// The main goroutine is stuck inside the library: it is not writing.
			wdMu.Lock()
			em := wdEm
			if em != nil && em.cur != nil {
				em.Emit(em.cur.K, J{"in": em.cur.In, "out": J{}, "abn": "hang"})
				em.w.Flush()
			}
			if casesW != nil {
				casesW.Flush()
			}
			os.Exit(hangExit)
		}
	}
}

func setPending(c *Case) {
	if pendingF == nil {
		return
	}
	b, _ := json.Marshal(c)
	b = append(b, '\n')
	pendingF.Truncate(0)
	pendingF.WriteAt(b, 0)
}

func runCase(p *Prop, c *Case, em *Emitter) {
	ex, ok := p.Exec[c.K]
	if !ok {
		fatalf("no executor for case kind %q", c.K)
	}
	// Always go through the serialized form so that record and replay take the same path.
	b, err := json.Marshal(c.In)
	if err != nil {
		fatalf("marshal case: %v", err)
	}
	in := parseIn(b)
	c.In = in.m
	setPending(c)
	wdMu.Lock()
	em.cur = c
	wdEm = em
	wdMu.Unlock()
	atomic.StoreInt64(&wdStart, time.Now().UnixNano())
	ex(in, em)
	atomic.StoreInt64(&wdStart, 0)
}

// guard runs fn, turning a panic into an abnormal-observation string.
func guard(fn func()) (abn string) {
	defer func() {
		if r := recover(); r != nil {
			s := fmt.Sprint(r)
			if len(s) > 160 {
				s = s[:160]
			}
			abn = "panic: " + s
		}
	}()
	fn()
	return ""
}

type meta struct {
	Prop        string            `json:"prop"`
	Cases       int               `json:"cases"`
	Events      int               `json:"events"`
	Calls       int64             `json:"calls"`
	Scanned     int64             `json:"scanned"`
	Distinct    int               `json:"distinct_nontrivial"`
	Kinds       map[string]int    `json:"kinds"`
	Samples     []json.RawMessage `json:"samples"`
	Digests     []string          `json:"digests,omitempty"`
	EnumeratedN int               `json:"enumerated"`
}

func main() {
	if len(os.Args) < 2 {
		fatalf("usage: drv record|one|replay ...")
	}
	cmd := os.Args[1]
	fs := flag.NewFlagSet(cmd, flag.ExitOnError)
	prop := fs.String("prop", "", "property id")
	seed := fs.Int64("seed", 1, "seed")
	tier := fs.String("tier", "quick", "quick|thorough")
	out := fs.String("out", "", "output dir (record/replay) or file (one)")
	inf := fs.String("in", "", "input cases file (one/replay)")
	shard := fs.Int("shard", 0, "shard index")
	of := fs.Int("of", 1, "number of shards")
	hang := fs.Int("hang", 60, "seconds after which a library call counts as hanging")
	fs.Parse(os.Args[2:])
	hangLimit = time.Duration(*hang) * time.Second
	p, ok := props[*prop]
	if !ok {
		fatalf("unknown property %q", *prop)
	}
	go watchdog()
	switch cmd {
	case "record":
		record(p, *prop, *seed, *tier, *out, *shard, *of, "")
	case "replay":
		record(p, *prop, *seed, *tier, *out, *shard, *of, *inf)
	case "one":
		one(p, *inf, *out)
	default:
		fatalf("unknown command %q", cmd)
	}
}

// runPrelude: ordinary earlier use of the library, the same in every driver process (see prelude.go). Should it
// not return (nothing in it is judged) the judged calls start anyway after 20 s; should the process die in it,
// the pending file names the pseudo-case "prelude" and the orchestrator starts over without the prelude, so
// that the property's own calls decide.
func runPrelude() {
	if os.Getenv("VERIF_NO_PRELUDE") != "" {
		return
	}
	setPending(&Case{ID: -1, K: "prelude", In: J{}})
	done := make(chan struct{})
	go func() { prelude(); close(done) }()
	select {
	case <-done:
	case <-time.After(20 * time.Second):
	}
	if pendingF != nil {
		pendingF.Truncate(0)
	}
}

func readCases(path string, fn func(c *Case)) {
	f, err := os.Open(path)
	if err != nil {
		fatalf("%v", err)
	}
	defer f.Close()
	sc := bufio.NewScanner(f)
	sc.Buffer(make([]byte, 1<<20), 1<<28)
	for sc.Scan() {
		line := strings.TrimSpace(sc.Text())
		if line == "" {
			continue
		}
		dec := json.NewDecoder(strings.NewReader(line))
		dec.UseNumber()
		var c Case
		if err := dec.Decode(&c); err != nil {
			fatalf("bad case line: %v", err)
		}
		fn(&c)
	}
	if err := sc.Err(); err != nil {
		fatalf("%v", err)
	}
}

func one(p *Prop, in, out string) {
	f, err := os.Create(out)
	if err != nil {
		fatalf("%v", err)
	}
	pendingF, _ = os.Create(out + ".pending")
	runPrelude()
	em := &Emitter{w: bufio.NewWriterSize(f, 1<<20)}
	readCases(in, func(c *Case) { runCase(p, c, em) })
	em.w.Flush()
	f.Close()
}

func record(p *Prop, prop string, seed int64, tier, dir string, shard, of int, casesIn string) {
	os.MkdirAll(dir, 0o755)
	base := filepath.Join(dir, fmt.Sprint(shard))
	tf, err := os.Create(base + ".ndjson")
	if err != nil {
		fatalf("%v", err)
	}
	cf, err := os.Create(base + ".cases.ndjson")
	if err != nil {
		fatalf("%v", err)
	}
	pendingF, _ = os.Create(base + ".pending")
	runPrelude()
	em := &Emitter{w: bufio.NewWriterSize(tf, 1<<20)}
	cw := bufio.NewWriterSize(cf, 1<<20)
	casesW = cw
	m := &meta{Prop: prop, Kinds: map[string]int{}}
	seen := map[[8]byte]bool{}
	accept := func(c *Case) {
		runCase(p, c, em)
		b, _ := json.Marshal(c)
		cw.Write(b)
		cw.WriteByte('\n')
		m.Cases++
		m.Kinds[c.K]++
		ib, _ := json.Marshal(c.In)
		h := sha256.Sum256(append([]byte(c.K+"|"), ib...))
		var k8 [8]byte
		copy(k8[:], h[:8])
		triv := p.Trivial != nil && p.Trivial(c.K, In{c.In})
		if !seen[k8] && !triv {
			seen[k8] = true
			m.Digests = append(m.Digests, hex.EncodeToString(k8[:]))
		}
		if len(m.Samples) < 3 || (m.Cases%997 == 0 && len(m.Samples) < 6) {
			if len(b) > 1500 {
				b, _ = json.Marshal(J{"c": c.ID, "k": c.K, "in_truncated": string(ib[:1200])})
			}
			m.Samples = append(m.Samples, json.RawMessage(b))
		}
	}
	if casesIn != "" {
		i := 0
		readCases(casesIn, func(c *Case) {
			if i%of == shard {
				accept(c)
			}
			i++
		})
		m.EnumeratedN = i
	} else {
		g := &Gen{R: rand.New(rand.NewSource(seed*7919 + 17)), Tier: tier, Seed: seed, shard: shard, of: of, accept: accept}
		p.Gen(g)
		m.EnumeratedN = g.n
	}
	em.w.Flush()
	cw.Flush()
	tf.Close()
	cf.Close()
	m.Events = em.events
	m.Calls = em.calls
	m.Scanned = em.scanned
	m.Distinct = len(m.Digests)
	sort.Strings(m.Digests)
	mb, _ := json.Marshal(m)
	if err := os.WriteFile(base+".meta.json", mb, 0o644); err != nil {
		fatalf("%v", err)
	}
	os.Remove(base + ".pending")
}
