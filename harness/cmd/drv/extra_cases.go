package main

// Specification growth beyond the listed properties (DESIGN.md section 9): the unexported select family
// (through verif hooks), bitmap.Fmt, mathext/util, typehelper.ToSlice, iohelper.AtToReader.

import (
	"bytes"
	"io"
	"math/bits"

	"github.com/openacid/low/bitmap"
	"github.com/openacid/low/iohelper"
	"github.com/openacid/low/mathext/util"
	"github.com/openacid/low/typehelper"
)

func init() {
	props["X01"] = &Prop{Gen: genX01, Exec: map[string]func(in In, em *Emitter){"selsingle": execSelSingle, "selu64": execSelU64, "fmt": execFmt}}
	props["X02"] = &Prop{Gen: genX02, Exec: map[string]func(in In, em *Emitter){"minmax": execMinMax, "toslice": execToSlice, "attoreader": execAtToReader}}
}

func execSelSingle(in In, em *Emitter) {
	ws := in.BM("bm")
	is := in.I32s("is")
	res := make([]int64, len(is))
	abn := guard(func() {
		sidx := bitmap.IndexSelect32(ws)
		for j, i := range is {
			res[j] = num(int64(hookSelect32Single(ws, sidx, i)))
		}
	})
	o := J{"res": res}
	if abn != "" {
		o = J{}
	}
	em.Emit("selsingle", J{"in": in.m, "out": o, "abn": abn})
	em.Calls(len(is))
}

func execSelU64(in In, em *Emitter) {
	var w uint64
	for _, b := range in.Is("w") {
		w |= 1 << uint(b)
	}
	o := J{}
	abn := guard(func() {
		idx := hookIndexSelectU64(w)
		index := make([][]int64, 8)
		for k := 0; k < 8; k++ {
			index[k] = wordOnes(idx >> uint(8*k) & 0xff)
		}
		sel := []int64{}
		for i := 0; i < bits.OnesCount64(w); i++ {
			sel = append(sel, num(int64(hookSelectU64Indexed(w, idx, uint64(i)))))
		}
		o = J{"index": index, "sel": sel}
	})
	em.Emit("selu64", J{"in": in.m, "out": o, "abn": abn})
	em.Calls(1 + bits.OnesCount64(w))
}

func execFmt(in In, em *Emitter) {
	size, signed, slice := in.Int("size"), in.Bool("signed"), in.Bool("slice")
	var vals []uint64
	for _, x := range toList(in.get("ws")) {
		var w uint64
		for _, b := range toIs(x) {
			w |= 1 << uint(b)
		}
		vals = append(vals, w)
	}
	var arg interface{}
	mk := func(w uint64) interface{} {
		switch {
		case size == 1 && signed:
			return int8(w)
		case size == 1:
			return uint8(w)
		case size == 2 && signed:
			return int16(w)
		case size == 2:
			return uint16(w)
		case size == 4 && signed:
			return int32(w)
		case size == 4:
			return uint32(w)
		case signed:
			return int64(w)
		}
		return w
	}
	if slice {
		switch {
		case size == 4 && signed:
			s := make([]int32, len(vals))
			for i, v := range vals {
				s[i] = int32(v)
			}
			arg = s
		case size == 8 && !signed:
			arg = vals
		case size == 1 && !signed:
			s := make([]uint8, len(vals))
			for i, v := range vals {
				s[i] = uint8(v)
			}
			arg = s
		default:
			s := make([]interface{}, len(vals))
			for i, v := range vals {
				s[i] = mk(v)
			}
			arg = s
		}
	} else {
		arg = mk(vals[0])
	}
	o := J{}
	abn := guard(func() { o = J{"s": strJ(bitmap.Fmt(arg))} })
	em.Emit("fmt", J{"in": in.m, "out": o, "abn": abn})
	em.Calls(1)
}

func genX01(g *Gen) {
	r := g.R
	genBitmaps(g, g.N(500, 20000), 8, 2, func(ws []uint64) {
		n := 0
		for _, w := range ws {
			n += bits.OnesCount64(w)
		}
		is := []int64{-1, -5, 0, int64(n) - 1, int64(n), int64(n) + 1, int64(n) + 40, 31, 32, 33}
		for i := 0; i < n; i += 1 + n/40 {
			is = append(is, int64(i))
		}
		g.Case("selsingle", J{"bm": bmJ(ws), "is": is})
	})
	for c := 0; c < g.N(1500, 60000); c++ {
		w := wordPats[r.Intn(len(wordPats))](r)
		g.Case("selu64", J{"w": wordOnes(w)})
	}
	for c := 0; c < g.N(600, 20000); c++ {
		size := []int{1, 2, 4, 8}[r.Intn(4)]
		n := 1
		slice := r.Intn(3) == 0
		if slice {
			n = r.Intn(5)
		}
		ws := make([][]int64, n)
		for i := range ws {
			w := wordPats[r.Intn(len(wordPats))](r)
			if size < 8 {
				w &= 1<<uint(8*size) - 1
			}
			ws[i] = wordOnes(w)
		}
		g.Case("fmt", J{"ws": ws, "size": size, "signed": r.Intn(2) == 0, "slice": slice})
	}
}

func execMinMax(in In, em *Emitter) {
	a, b, n := in.I("a"), in.I("b"), in.I("n")
	t := in.S("t")
	o := J{}
	abn := guard(func() {
		var mn, mx, cl int64
		switch t {
		case "I":
			mn, mx, cl = int64(util.MinI(int(a), int(b))), int64(util.MaxI(int(a), int(b))), int64(util.ClapI(int(n), int(a), int(b)))
		case "I8":
			mn, mx, cl = int64(util.MinI8(int8(a), int8(b))), int64(util.MaxI8(int8(a), int8(b))), int64(util.ClapI8(int8(n), int8(a), int8(b)))
		case "I16":
			mn, mx, cl = int64(util.MinI16(int16(a), int16(b))), int64(util.MaxI16(int16(a), int16(b))), int64(util.ClapI16(int16(n), int16(a), int16(b)))
		case "I32":
			mn, mx, cl = int64(util.MinI32(int32(a), int32(b))), int64(util.MaxI32(int32(a), int32(b))), int64(util.ClapI32(int32(n), int32(a), int32(b)))
		case "I64":
			mn, mx, cl = util.MinI64(a, b), util.MaxI64(a, b), util.ClapI64(n, a, b)
		case "U":
			mn, mx, cl = int64(util.MinU(uint(a), uint(b))), int64(util.MaxU(uint(a), uint(b))), int64(util.ClapU(uint(n), uint(a), uint(b)))
		case "U8":
			mn, mx, cl = int64(util.MinU8(uint8(a), uint8(b))), int64(util.MaxU8(uint8(a), uint8(b))), int64(util.ClapU8(uint8(n), uint8(a), uint8(b)))
		case "U16":
			mn, mx, cl = int64(util.MinU16(uint16(a), uint16(b))), int64(util.MaxU16(uint16(a), uint16(b))), int64(util.ClapU16(uint16(n), uint16(a), uint16(b)))
		case "U32":
			mn, mx, cl = int64(util.MinU32(uint32(a), uint32(b))), int64(util.MaxU32(uint32(a), uint32(b))), int64(util.ClapU32(uint32(n), uint32(a), uint32(b)))
		case "U64":
			mn, mx, cl = int64(util.MinU64(uint64(a), uint64(b))), int64(util.MaxU64(uint64(a), uint64(b))), int64(util.ClapU64(uint64(n), uint64(a), uint64(b)))
		default:
			fatalf("minmax: type %q", t)
		}
		o = J{"min": num(mn), "max": num(mx), "clap": num(cl)}
	})
	em.Emit("minmax", J{"in": in.m, "out": o, "abn": abn})
	em.Calls(3)
}

func execToSlice(in In, em *Emitter) {
	xs := in.Is("xs")
	o := J{}
	abn := guard(func() {
		var rs []interface{}
		switch in.S("t") {
		case "int64":
			rs = typehelper.ToSlice(xs)
		default:
			s := make([]int32, len(xs))
			for i, x := range xs {
				s[i] = int32(x)
			}
			rs = typehelper.ToSlice(s)
		}
		r := make([]int64, len(rs))
		for i, x := range rs {
			switch v := x.(type) {
			case int64:
				r[i] = num(v)
			case int32:
				r[i] = num(int64(v))
			default:
				r[i] = BIG
			}
		}
		o = J{"r": r}
	})
	em.Emit("toslice", J{"in": in.m, "out": o, "abn": abn})
	em.Calls(1)
}

func execAtToReader(in In, em *Emitter) {
	data := in.Bs("data")
	off := in.I("off")
	sizes := in.Is("sizes")
	o := J{}
	abn := guard(func() {
		rd := iohelper.AtToReader(bytes.NewReader(data), off)
		chunks := [][]int64{}
		eof := false
		for _, sz := range sizes {
			buf := make([]byte, sz)
			n, err := rd.Read(buf)
			chunks = append(chunks, bytesJ(buf[:n]))
			if err == io.EOF {
				eof = true
				break
			}
		}
		o = J{"chunks": chunks, "eof": eof}
	})
	em.Emit("attoreader", J{"in": in.m, "out": o, "abn": abn})
	em.Calls(len(sizes))
}

func genX02(g *Gen) {
	r := g.R
	rng := map[string][2]int64{"I": {-1 << 30, 1 << 30}, "I8": {-128, 127}, "I16": {-32768, 32767}, "I32": {-1 << 30, 1 << 30}, "I64": {-1 << 30, 1 << 30},
		"U": {0, 1 << 30}, "U8": {0, 255}, "U16": {0, 65535}, "U32": {0, 1 << 30}, "U64": {0, 1 << 30}}
	types := []string{"I", "I8", "I16", "I32", "I64", "U", "U8", "U16", "U32", "U64"}
	pick := func(t string) int64 {
		lo, hi := rng[t][0], rng[t][1]
		switch r.Intn(5) {
		case 0:
			return lo
		case 1:
			return hi
		case 2:
			if lo < 0 {
				return int64(r.Intn(3)) - 1
			}
			return int64(r.Intn(2))
		}
		return lo + r.Int63n(hi-lo+1)
	}
	for c := 0; c < g.N(3000, 100000); c++ {
		t := types[c%len(types)]
		a, b := pick(t), pick(t)
		n := pick(t)
		if r.Intn(3) == 0 {
			n = a + int64(r.Intn(3)) - 1
			if n < rng[t][0] || n > rng[t][1] {
				n = a
			}
		}
		if r.Intn(4) != 0 && a > b {
			a, b = b, a // mostly well-ordered bounds; sometimes min > max
		}
		g.Case("minmax", J{"t": t, "a": a, "b": b, "n": n})
	}
	for c := 0; c < g.N(200, 5000); c++ {
		xs := make([]int64, r.Intn(8))
		for i := range xs {
			xs[i] = int64(r.Intn(2000)) - 1000
		}
		g.Case("toslice", J{"t": []string{"int64", "int32"}[r.Intn(2)], "xs": xs})
	}
	for c := 0; c < g.N(500, 20000); c++ {
		data := randBytes(r, r.Intn(60))
		off := int64(r.Intn(len(data) + 3))
		var sizes []int64
		for i := 0; i < 12; i++ {
			sizes = append(sizes, int64(r.Intn(20)))
		}
		g.Case("attoreader", J{"data": bytesJ(data), "off": off, "sizes": sizes})
	}
}
