package main

// C18 for compositions: a SectionWriter laid over another SectionWriter (a SectionWriter is an io.WriterAt),
// judged by Trace_SectionWriter2 (two instances of the SectionWriter machine, the inner one being the outer
// one's environment). The innermost writer is the same scripted writer as in execSW.

import (
	"github.com/openacid/low/iohelper"
)

func init() {
	props["C18n"] = &Prop{
		Gen:  genC18n,
		Exec: map[string]func(in In, em *Emitter){"swn": execSWN},
		Trivial: func(k string, in In) bool {
			return len(in.L("ops")) < 2
		},
	}
}

func execSWN(in In, em *Emitter) {
	under := &scriptW{}
	var inner, outer *iohelper.SectionWriter
	var ib int64
	for _, op := range in.L("ops") {
		k := op.S("k")
		ev := J{}
		under.calls = nil
		under.acc, under.fail, under.failAt, under.pieces, under.logged = 0, false, 0, 0, 0
		if op.has("acc") {
			under.acc, under.fail = op.Int("acc"), op.Bool("fail")
		}
		var n int64
		var err error
		var abn string
		target := outer
		if k == "IWrite" || k == "IWriteAt" || k == "ISeek" {
			target = inner
		}
		switch k {
		case "New2":
			ib = op.I("ib")
			ev["inn"], ev["ob"], ev["on"] = op.I("inn"), op.I("ob"), op.I("on")
			abn = guard(func() {
				inner = iohelper.NewSectionWriter(under, ib, op.I("inn"))
				outer = iohelper.NewSectionWriter(inner, op.I("ob"), op.I("on"))
			})
		case "Write", "IWrite":
			p := op.Bs("p")
			ev["p"] = bytesJ(p)
			abn = guard(func() { var m int; m, err = target.Write(p); n = int64(m) })
		case "WriteAt", "IWriteAt":
			p, off := op.Bs("p"), op.I("off")
			ev["p"], ev["off"] = bytesJ(p), off
			abn = guard(func() { var m int; m, err = target.WriteAt(p, off); n = int64(m) })
		case "Seek", "ISeek":
			off, wh := op.I("off"), op.Int("w")
			ev["off"], ev["w"] = off, wh
			abn = guard(func() { n, err = target.Seek(off, wh) })
		case "Size":
			abn = guard(func() { n = outer.Size() })
		default:
			fatalf("swn: unknown op %q", k)
		}
		ev["abn"] = abn
		ev["rn"] = num(n)
		ev["err"] = errClass(err)
		calls := under.calls
		if calls == nil {
			calls = []J{}
		}
		for _, c := range calls {
			c["off"] = num(c["off"].(int64) - ib)
		}
		ev["under"] = calls
		ev["ocur"], ev["icur"] = -1, -1
		if abn == "" {
			if c, ok := swCursor(outer); ok {
				ev["ocur"] = num(c) // the outer cursor is an offset relative to the inner section's start
			}
			if c, ok := swCursor(inner); ok {
				ev["icur"] = num(c - ib)
			}
		}
		em.Emit(k, ev)
		em.Calls(1)
		if abn != "" {
			return
		}
	}
}

func genC18n(g *Gen) {
	r := g.R
	buf := func(n int) []int64 {
		b := make([]int64, n)
		for i := range b {
			b[i] = int64(r.Intn(256))
		}
		return b
	}
	for h := 0; h < g.N(500, 15000); h++ {
		ib := []int64{0, 7, 4096, 1 << 33}[r.Intn(4)]
		inn := []int64{0, 1, 10, 64, 100, 1000}[r.Intn(6)]
		ob := []int64{0, 0, 1, 5, inn - 3, inn, inn + 2, inn / 2}[r.Intn(8)]
		if ob < 0 {
			ob = 0
		}
		on := []int64{0, 1, 10, 64, inn - ob, inn - ob + 5, inn - ob - 1, 1000}[r.Intn(8)]
		if on < 0 {
			on = 0
		}
		ops := []J{{"k": "New2", "ib": ib, "inn": inn, "ob": ob, "on": on}}
		ocur, icur := int64(0), int64(0) // generator-side estimates (relative to each section's start): they only steer the inputs
		env := func(op J, l int) J {
			if r.Intn(5) == 0 {
				op["acc"], op["fail"] = r.Intn(l+2), true
			} else {
				op["acc"], op["fail"] = 0, false
			}
			return op
		}
		// a length that ends at / one before / beyond the end of the outer or of the inner section, or anything
		pick := func(pos int64, outerOp bool) int {
			var rooms []int64
			if outerOp {
				rooms = []int64{on - pos, inn - ob - pos}
			} else {
				rooms = []int64{inn - pos}
			}
			room := rooms[r.Intn(len(rooms))]
			var l int64
			switch r.Intn(5) {
			case 0:
				l = room
			case 1:
				l = room + 1 + int64(r.Intn(3))
			case 2:
				l = room - 1
			default:
				l = int64(1 + r.Intn(12))
			}
			if l < 1 || l > 80 {
				l = int64(1 + r.Intn(12))
			}
			return int(l)
		}
		for i := 3 + r.Intn(g.N(10, 16)); i > 0; i-- {
			switch r.Intn(12) {
			case 0, 1, 2, 3:
				l := pick(ocur, true)
				ops = append(ops, env(J{"k": "Write", "p": buf(l)}, l))
				ocur += int64(l)
			case 4, 5, 6:
				off := []int64{0, 1, on - 1, on, on + 1, inn - ob, inn - ob - 2, -1, int64(r.Intn(70))}[r.Intn(9)]
				l := pick(off, true)
				ops = append(ops, env(J{"k": "WriteAt", "p": buf(l), "off": off}, l))
			case 7, 8:
				w := []int{0, 0, 1, 1, 2, 2, 3, -1}[r.Intn(8)]
				off := []int64{0, 1, -1, 3, -3, on, on - 2, inn - ob, int64(r.Intn(40)) - 8}[r.Intn(9)]
				ops = append(ops, J{"k": "Seek", "off": off, "w": w})
				switch w {
				case 0:
					ocur = off
				case 1:
					ocur += off
				case 2:
					ocur = on + off
				}
			case 9:
				ops = append(ops, J{"k": "Size"})
			case 10:
				if r.Intn(2) == 0 {
					l := pick(icur, false)
					ops = append(ops, env(J{"k": "IWrite", "p": buf(l)}, l))
					icur += int64(l)
				} else {
					off := []int64{0, ob, ob + on, inn - 1, inn, int64(r.Intn(70))}[r.Intn(6)]
					l := pick(off, false)
					ops = append(ops, env(J{"k": "IWriteAt", "p": buf(l), "off": off}, l))
				}
			default:
				w := []int{0, 1, 2}[r.Intn(3)]
				off := []int64{0, 1, -1, ob, inn, int64(r.Intn(40)) - 8}[r.Intn(6)]
				ops = append(ops, J{"k": "ISeek", "off": off, "w": w})
				switch w {
				case 0:
					icur = off
				case 1:
					icur += off
				case 2:
					icur = inn + off
				}
			}
		}
		g.Case("swn", J{"ops": ops})
	}
}
