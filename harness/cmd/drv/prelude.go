package main

// The prelude: ordinary use of the library BEFORE the calls a check judges.
//
// Every property is stated for every input and every history, and a slice the library returns belongs to the
// caller. A process that has already used the package (decoded a few trees, built a few bitmaps) and has
// changed the slices it got back must see exactly the same answers afterwards. Code that hands out a view of a
// package-level table (a mask table, a lookup row, a memo, a pooled buffer) or filters such a view in place is
// correct in a fresh process and wrong after such use; running the same short, fixed sequence of calls at the
// start of EVERY driver process (record, replay and the isolated re-execution `one` alike) makes that visible
// to every check and keeps every case reproducible in isolation.
//
// Nothing here is judged; panics are swallowed (the judged calls decide). The inputs favour what fast paths
// test for: empty, full, aligned, leading runs, single elements, whole words.

import (
	"bytes"

	"github.com/openacid/low/bitmap"
	"github.com/openacid/low/bitstr"
	"github.com/openacid/low/bitword"
	"github.com/openacid/low/bmtree"
	"github.com/openacid/low/pbcmpl"
	"github.com/openacid/low/sigbits"
	"github.com/openacid/low/size"
)

func flip64(ws []uint64) {
	for i := range ws {
		ws[i] = ^ws[i]
	}
	ws = ws[:cap(ws)]
	for i := range ws {
		ws[i] ^= 0x5a5a5a5a5a5a5a5a
	}
}

func flip32(ws []int32) {
	ws = ws[:cap(ws)]
	for i := range ws {
		ws[i] = ^ws[i]
	}
}

func flip8(ws []byte) {
	ws = ws[:cap(ws)]
	for i := range ws {
		ws[i] = ^ws[i]
	}
}

func quiet(fn func()) {
	defer func() { recover() }()
	fn()
}

func prelude() {
	// ---- bitmap: construction from positions
	for k := int32(0); k <= 70; k++ {
		run := make([]int32, k)
		for i := range run {
			run[i] = int32(i)
		}
		quiet(func() { flip64(bitmap.Of(run)) })                            // a leading run 0..k-1
		quiet(func() { flip64(bitmap.Of(append(run, k+3))) })               // ... plus one more position
		quiet(func() { flip64(bitmap.Of(append(run, 63))) })                // ... inside one word
		quiet(func() { flip64(bitmap.Of(run, k)) })                         // ... with the size given
		quiet(func() { flip64(bitmap.Of([]int32{k})) })                     // a single position
		quiet(func() { flip64(bitmap.OfMany([][]int32{run}, []int32{k})) }) // one completely filled sub-bitmap
		if k > 1 {
			a, b := run[:k/2], make([]int32, k-k/2)
			for i := range b {
				b[i] = int32(i)
			}
			quiet(func() { flip64(bitmap.OfMany([][]int32{a, b}, []int32{k / 2, k - k/2})) }) // two filled ones
			quiet(func() { flip64(bitmap.OfMany([][]int32{a, {}}, []int32{k / 2, k - k/2})) })
		}
	}
	quiet(func() { flip64(bitmap.Of(nil)) })
	quiet(func() { flip64(bitmap.OfMany(nil, nil)) })
	// ---- bitmap: packing, slicing, indexes
	words := []uint64{^uint64(0), 0, 0xaaaaaaaaaaaaaaaa, 1, 1 << 63, ^uint64(0), ^uint64(0), 0x00ff00ff00ff00ff}
	for _, w := range []int32{1, 2, 4, 8, 16, 32, 64} {
		for _, n := range []int{0, 1, int(64 / w), int(64/w) + 1, int(128 / w)} {
			vals := make([]uint64, n)
			for i := range vals {
				vals[i] = ^uint64(0)
			}
			quiet(func() { flip64(bitmap.Join(vals, w)) })
			for i := range vals {
				vals[i] = uint64(i)
			}
			quiet(func() { flip64(bitmap.Join(vals, w)) })
		}
	}
	for _, ft := range [][2]int32{{0, 0}, {0, 64}, {0, 512}, {64, 128}, {64, 64}, {1, 65}, {0, 1}, {63, 64}, {128, 512}, {5, 5}, {0, 511}} {
		src := append([]uint64{}, words...)
		quiet(func() { flip64(bitmap.Slice(src, ft[0], ft[1])) })
	}
	for n := 0; n <= len(words); n++ {
		src := append([]uint64{}, words[:n]...)
		quiet(func() { flip32(bitmap.ToArray(src)) })
		quiet(func() { flip32(bitmap.IndexRank64(src)) })
		quiet(func() { flip32(bitmap.IndexRank64(src, true)) })
		quiet(func() { flip32(bitmap.IndexRank128(src)) })
		quiet(func() { flip32(bitmap.IndexSelect32(src)) })
		quiet(func() {
			a, b := bitmap.IndexSelect32R64(src)
			flip32(a)
			flip32(b)
		})
		quiet(func() { _ = bitmap.Fmt(src) })
	}
	quiet(func() {
		b := bitmap.NewBuilder(0)
		b.Extend([]int32{0, 1, 2}, 3)
		b.Extend(nil, 64)
		b.Set(70, 1)
		flip64(b.Words)
	})
	quiet(func() {
		tb := bitmap.NewTailBitmap(0)
		for i := int64(0); i < 200; i++ {
			tb.Set(i)
		}
		tb.Compact()
		flip64(tb.Words)
	})
	// ---- bmtree: every full tree up to height 10 and a few partial ones, decoded from sparse and dense bitmaps
	sizes := []int32{}
	for h := uint(0); h <= 10; h++ {
		sizes = append(sizes, 1<<(h+1)-1, 1<<h, 1<<h|1, 1<<h|(1<<h)>>1)
	}
	sizes = append(sizes, 0xffff, 0x1ffff, 0x8001, 1<<30|1, 1<<30|1<<29)
	for _, sz := range sizes {
		if sz <= 0 {
			continue
		}
		nw := int(sz)/64 + 1
		if sz < 1<<12 {
			quiet(func() { flip64(bmtree.AllPaths(sz, 0, ^uint64(0)>>1)) })
			for _, pat := range []uint64{0x8208208208208208, ^uint64(0), 0x0101010101010101, 1, 0xfffffffffffffffe, 0} {
				bm := make([]uint64, nw, nw+2)
				for i := range bm {
					bm[i] = pat
				}
				quiet(func() { flip64(bmtree.Decode(sz, bm)) })
				quiet(func() { flip64(bmtree.Decode(sz, bm[:nw/2])) })
			}
		}
		h := bmtree.Height(sz)
		for _, l := range []int32{0, 1, h / 2, h} {
			if l > h {
				continue
			}
			quiet(func() {
				p := bmtree.NewPath(0x5555555555555555&(1<<uint(l)-1), l, h)
				_ = bmtree.PathStr(p)
				_ = bmtree.PathLen(p)
				bmtree.PathToIndexLoose(sz, p)
			})
		}
		if sz < 1<<12 && sz&(sz+1) == 0 {
			for i := int32(0); i < sz; i += 1 + sz/37 {
				quiet(func() { _ = bmtree.PathToIndex(sz, bmtree.IndexToPath(h, i)) })
			}
		}
	}
	keys := []string{"", "a", "ab", "ab", "abc", "b", "\xff\xff\xff\xff\xff", "\xff\xff\xff\xff\xff\x00"}
	for _, h := range []int32{1, 3, 8, 16, 31, 32} {
		for _, from := range []int32{0, 3, 8} {
			quiet(func() { flip64(bmtree.PathsOf(keys, from, h, true)) })
			quiet(func() { flip64(bmtree.PathsOf(keys, from, h, false)) })
		}
	}
	// ---- strings
	for _, n := range []int{1, 2, 4, 8} {
		bw := bitword.BitWord[n]
		for _, s := range []string{"", "a", "abcdefgh", "abcdefghi", "\x00\x00", "\xff"} {
			quiet(func() {
				ws := bw.FromStr(s)
				_ = bw.ToStr(ws)
				flip8(ws)
			})
			quiet(func() { _ = bw.FirstDiff(s, s+"x", 0, -1) })
		}
		quiet(func() {
			wss := bw.FromStrs(keys)
			_ = bw.ToStrs(wss)
			for _, ws := range wss {
				flip8(ws)
			}
		})
	}
	for _, s := range []string{"", "a", "abcdefgh", "abcdefghij"} {
		for _, ft := range [][2]int32{{0, 0}, {0, int32(8 * len(s))}, {0, 3}, {3, 3}} {
			if ft[1] > int32(8*len(s)) {
				continue
			}
			quiet(func() {
				b := bitstr.New(s, ft[0], ft[1])
				_ = bitstr.Len(b)
				_ = bitstr.Cmp(b, b)
				_ = bitstr.CmpUpto([]byte(s), b)
				_ = bitstr.StrCmpUpto(s, b)
				flip8(b)
			})
		}
	}
	sorted := []string{"", "a", "ab", "abc", "abd", "b", "ba", "c"}
	quiet(func() { flip32(sigbits.FirstDiffBits(sorted)) })
	quiet(func() {
		sb := sigbits.New(sorted)
		_, c := sb.CountPrefixes(0, int32(len(sorted)), 2)
		flip32(c)
		_, c = sb.CountPrefixes(1, 4, 1)
		flip32(c)
	})
	for _, m := range []int32{1, 2, 3, 100} {
		quiet(func() {
			a, b := sigbits.ShardByPrefix(sorted, m)
			flip32(a)
			flip32(b)
		})
	}
	// ---- framing: a complete frame, a frame cut short, an empty body; sizes of a few values
	quiet(func() {
		var buf bytes.Buffer
		pbcmpl.Marshal(&buf, &rawVMsg{rawMsg{data: []byte("hello")}, "1.0.0"})
		pbcmpl.Marshal(&buf, &rawVMsg{rawMsg{data: nil}, "1.0.1"})
		all := append([]byte{}, buf.Bytes()...)
		var m rawMsg
		pbcmpl.Unmarshal(bytes.NewReader(all[:35]), &m)
		pbcmpl.Unmarshal(bytes.NewReader(all), &m)
		pbcmpl.ReadHeader(bytes.NewReader(all[:20]))
		pbcmpl.ReadHeader(bytes.NewReader(all))
	})
	quiet(func() {
		x := int64(1)
		_ = size.Of([]interface{}{&x, &x, "abc", []int16{1, 2}, map[string]int8{"a": 1}, struct {
			a int8
			b int64
		}{}})
		_ = size.Stat([]*int64{&x, nil}, 2, 2)
	})
}
