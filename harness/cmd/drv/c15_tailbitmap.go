package main

// C15: TailBitmap histories. A case is a whole history (New followed by Set/Compact/Get/Get1
// operations); every operation is one trace event carrying the projected state after the call.

import (
	"github.com/openacid/low/bitmap"
)

func init() {
	props["C15"] = &Prop{
		Gen:  genC15,
		Exec: map[string]func(in In, em *Emitter){"tb": execTB},
		Trivial: func(k string, in In) bool {
			return len(in.L("ops")) < 2
		},
	}
}

// tbState projects the observable state: Offset, len(Words) and the positions of the stored 1-bits, all
// RELATIVE to the initial offset o0 (the machine is translation invariant for multiples of 64), so that
// bitmaps anywhere in the int64 range stay inside TLC's integers.
func tbState(tb *bitmap.TailBitmap, o0 int64) J {
	ones := []int64{}
	for i, w := range tb.Words {
		if w == 0 {
			continue
		}
		for b := 0; b < 64; b++ {
			if w>>uint(b)&1 == 1 {
				ones = append(ones, num(tb.Offset-o0+int64(i*64+b)))
			}
		}
	}
	rec := tbReclaimed(tb)
	if rec >= 0 {
		rec = num(rec - o0)
	}
	st := J{"off": num(tb.Offset - o0), "nw": len(tb.Words), "ones": ones, "runs": [][]int64{}, "rec": rec}
	if len(ones) > tbMaxOnes {
		// thousands of stored 1-bits (a bulk fill before one big compaction): logged as runs <<first, length>>
		runs := [][]int64{}
		for _, x := range ones {
			if n := len(runs); n > 0 && runs[n-1][0]+runs[n-1][1] == x {
				runs[n-1][1]++
			} else {
				runs = append(runs, []int64{x, 1})
			}
		}
		st["ones"], st["runs"] = []int64{}, runs
		if len(runs) > tbMaxOnes {
			// No generated history stores that many separate runs of 1-bits beyond Offset when words are compacted
			// as specified; the projection is cut (and therefore rejected) instead of growing quadratically.
			st["runs"] = runs[:tbMaxOnes]
			st["cut"] = true
		}
	}
	return st
}

const tbMaxOnes = 2048

// expandTB turns the macro-steps of TLC-generated behaviours (Fill, Probe) into plain calls.
func expandTB(ops []In) []In {
	var out []In
	for _, op := range ops {
		switch op.S("k") {
		case "Fill":
			base, hole := op.I("base"), op.I("hole")
			for b := int64(0); b < 64; b++ {
				if b != hole {
					out = append(out, In{J{"k": "Set", "idx": base + b}})
				}
			}
			if hole >= 0 {
				out = append(out, In{J{"k": "ProbeIf", "j": base + hole}})
			}
		case "Probe":
			j := op.I("j")
			out = append(out, In{J{"k": "ProbeIf", "j": j}}, In{J{"k": "ProbeIf", "j": j + 1}}, In{J{"k": "ProbeIf", "j": j - 64}})
		default:
			out = append(out, op)
		}
	}
	return out
}

// relProbe logs a probed index relative to o0. Far below o0 only "below o0" and the index mod 64 matter (o0 is
// a multiple of 64): such an index is moved to just above -2^30, keeping both, to stay inside TLC's integers.
func relProbe(j, o0 int64) int64 {
	d := j - o0
	if d < -(1 << 30) {
		d = -(1 << 30) + ((d%64)+64)%64
	}
	return num(d)
}

func execTB(in In, em *Emitter) {
	var tb *bitmap.TailBitmap
	var o0 int64
	for _, op := range expandTB(in.L("ops")) {
		k := op.S("k")
		if k == "ProbeIf" {
			// a probe requested by the generator, issued only inside the domain of Get1 (below the end of the
			// stored words); the trace specification checks that domain again on the logged event
			j := op.I("j")
			if tb == nil || j < 0 || j >= tb.Offset+int64(64*len(tb.Words)) {
				continue
			}
			k = "Get1"
			op = In{J{"k": "Get1", "j": j}}
		}
		ev := J{}
		var abn string
		switch k {
		case "New":
			o := op.I("o")
			o0 = o
			ev["omod"] = o % 64 // must be 0 (the property's domain); everything else is logged relative to o
			abn = guard(func() { tb = bitmap.NewTailBitmap(o) })
		case "Set":
			idx := op.I("idx")
			ev["idx"] = relProbe(idx, o0) // (far below o0 only "below" and the index mod 64 matter)
			abn = guard(func() { tb.Set(idx) })
		case "SetRange": // Set(lo), Set(lo+1), ..., Set(hi-1): one event (Trace_TailBitmap!TraceSetRange)
			lo, hi := op.I("lo"), op.I("hi")
			ev["lo"], ev["hi"] = num(lo-o0), num(hi-o0)
			abn = guard(func() {
				for i := lo; i < hi; i++ {
					tb.Set(i)
				}
			})
			em.Calls(int(hi - lo - 1))
		case "Compact":
			abn = guard(func() { tb.Compact() })
		case "Get":
			j := op.I("j")
			ev["j"] = relProbe(j, o0)
			var r uint64
			abn = guard(func() { r = tb.Get(j) })
			ev["r"] = wordOnes(r)
		case "Get1":
			j := op.I("j")
			ev["j"] = relProbe(j, o0)
			var r uint64
			abn = guard(func() { r = tb.Get1(j) })
			ev["r"] = wordOnes(r)
		default:
			fatalf("tb: unknown op %q", k)
		}
		ev["abn"] = abn
		if tb != nil {
			ev["st"] = tbState(tb, o0)
		} else {
			ev["st"] = J{"off": 0, "nw": 0, "ones": []int64{}, "rec": 0}
		}
		em.Emit(k, ev)
		em.Calls(1)
		if abn != "" {
			return // the object is in an unknown state: end this history
		}
		if st, ok := ev["st"].(J); ok && st["cut"] != nil {
			return
		}
	}
}

// ---- generation

type tbGen struct {
	g    *Gen
	ops  []J
	off  int64 // generator's own bookkeeping of where interesting indexes are (not an oracle: only steers inputs)
	hi   int64 // highest index set so far + 1
	set  map[int64]bool
	base int64
}

func newTBGen(g *Gen, o int64) *tbGen {
	t := &tbGen{g: g, base: o, hi: o, set: map[int64]bool{}}
	t.ops = append(t.ops, J{"k": "New", "o": o})
	return t
}

func (t *tbGen) Set(idx int64) {
	if idx < 0 {
		return
	}
	t.ops = append(t.ops, J{"k": "Set", "idx": idx})
	t.set[idx] = true
	if idx+1 > t.hi {
		t.hi = idx + 1
	}
}
func (t *tbGen) SetRange(lo, hi int64) {
	t.ops = append(t.ops, J{"k": "SetRange", "lo": lo, "hi": hi})
	if hi > t.hi {
		t.hi = hi
	}
}
func (t *tbGen) Compact() { t.ops = append(t.ops, J{"k": "Compact"}) }

// end returns an index bound below which Get is certainly inside the stored words or below Offset:
// j <= highest index ever set (the property's own quantifier).
func (t *tbGen) probe(j int64) {
	if j < 0 || j >= t.hi {
		return
	}
	if t.g.R.Intn(2) == 0 {
		t.ops = append(t.ops, J{"k": "Get", "j": j})
	} else {
		t.ops = append(t.ops, J{"k": "Get1", "j": j})
	}
}

func (t *tbGen) probes(n int) {
	if t.hi <= 0 {
		return
	}
	for i := 0; i < n; i++ {
		r := t.g.R
		var j int64
		switch r.Intn(5) {
		case 0:
			j = t.base - 1 - int64(r.Intn(70))
		case 1:
			j = t.base + int64(r.Intn(int(t.hi-t.base)+1))
		case 2:
			j = t.hi - 1 - int64(r.Intn(66))
		case 3:
			j = (t.base + int64(r.Intn(int(t.hi-t.base)+1))) &^ 63
			j += int64([]int{-1, 0, 1, 63, 64}[r.Intn(5)])
		default:
			j = int64(r.Intn(int(t.hi) + 1))
		}
		t.probe(j)
	}
}

func (t *tbGen) done() { t.g.Case("tb", J{"ops": t.ops}) }

func genC15(g *Gen) {
	r := g.R
	// initial offsets anywhere in the int64 range (multiples of 64), incl. around 2^31, 2^32, 2^37 (word index 2^31) and near 2^62
	offsets := []int64{0, 64, 128, 640, 4096, 65536, 1 << 20, 1<<31 - 64, 1 << 31, 1<<32 - 128, 1 << 32, 1<<37 - 64, 1 << 37, 1 << 45, 1<<62 - 1<<20}
	// 1. structured fills of a few words: front-to-back, back-to-front, word permutations.
	for _, o := range append(offsets[:g.N(2, 7)], offsets[7+r.Intn(8)]) {
		for words := 1; words <= g.N(3, 5); words++ {
			for mode := 0; mode < 6; mode++ {
				t := newTBGen(g, o)
				n := int64(words * 64)
				idxs := make([]int64, n)
				for i := range idxs {
					idxs[i] = o + int64(i)
				}
				switch mode {
				case 0: // front to back
				case 1: // back to front
					for i, j := 0, len(idxs)-1; i < j; i, j = i+1, j-1 {
						idxs[i], idxs[j] = idxs[j], idxs[i]
					}
				case 2: // random permutation
					r.Shuffle(len(idxs), func(i, j int) { idxs[i], idxs[j] = idxs[j], idxs[i] })
				case 3: // words in reverse order, bits ascending inside a word
					for w := 0; w < words/2; w++ {
						for b := 0; b < 64; b++ {
							a, c := w*64+b, (words-1-w)*64+b
							idxs[a], idxs[c] = idxs[c], idxs[a]
						}
					}
				case 4: // all but one bit of every word, then the holes back to front
					holes := []int64{}
					rest := []int64{}
					for w := 0; w < words; w++ {
						h := int64(r.Intn(64))
						for b := int64(0); b < 64; b++ {
							if b == h {
								holes = append(holes, o+int64(w*64)+b)
							} else {
								rest = append(rest, o+int64(w*64)+b)
							}
						}
					}
					for i, j := 0, len(holes)-1; i < j; i, j = i+1, j-1 {
						holes[i], holes[j] = holes[j], holes[i]
					}
					idxs = append(rest, holes...)
				case 5: // later words first completely, word 0 last bit last
					idxs = idxs[:0]
					for w := words - 1; w >= 0; w-- {
						for b := 63; b >= 0; b-- {
							idxs = append(idxs, o+int64(w*64+b))
						}
					}
				}
				for i, idx := range idxs {
					t.Set(idx)
					if r.Intn(40) == 0 {
						t.Compact()
					}
					if i%16 == 15 || i >= len(idxs)-3 {
						t.probes(2)
					}
					if r.Intn(50) == 0 {
						t.Set(idx) // repeated
					}
					if r.Intn(50) == 0 {
						t.Set(o - 1 - int64(r.Intn(100))) // below the offset
					}
				}
				t.probes(6)
				t.Compact()
				t.probes(4)
				t.done()
			}
		}
	}
	// 1b. layout histories: a run of 8..30 words is given a fullness layout (full / partial / empty, mostly
	// full), all of it is set except one bit of word 0, in a seeded word order; completing word 0 then makes one
	// Compact walk a long run of full words with partial and full words behind it; afterwards the bitmap grows
	// by several words at once and the holes are probed and closed one by one.
	for h := 0; h < g.N(60, 500); h++ {
		o := offsets[r.Intn(3)]
		t := newTBGen(g, o)
		nwords := 8 + r.Intn(23)
		kind := make([]int, nwords) // 0 full, 1 partial, 2 empty
		pFull := []float64{0.6, 0.8, 0.9}[r.Intn(3)]
		for w := range kind {
			x := r.Float64()
			switch {
			case x < pFull:
				kind[w] = 0
			case x < pFull+(1-pFull)*0.7:
				kind[w] = 1
			default:
				kind[w] = 2
			}
		}
		kind[0] = 0
		if r.Intn(2) == 0 { // a long leading run of full words, then a partial one, then full ones again
			run := 8 + r.Intn(nwords-7)
			for w := 0; w < nwords; w++ {
				if w < run {
					kind[w] = 0
				} else if w == run {
					kind[w] = 1
				} else if r.Intn(4) != 0 {
					kind[w] = 0
				}
			}
		}
		order := r.Perm(nwords)
		hole0 := int64(r.Intn(64))
		var holes []int64
		for _, w := range order {
			switch kind[w] {
			case 2:
				continue
			case 1:
				miss := map[int]bool{r.Intn(64): true}
				if r.Intn(2) == 0 {
					miss[r.Intn(64)] = true
				}
				for b := 0; b < 64; b++ {
					if miss[b] {
						holes = append(holes, o+int64(w*64+b))
					} else {
						t.Set(o + int64(w*64+b))
					}
				}
			default:
				for b := int64(0); b < 64; b++ {
					if w == 0 && b == hole0 {
						continue
					}
					t.Set(o + int64(w*64) + b)
				}
			}
			if r.Intn(6) == 0 {
				t.probes(2)
			}
		}
		t.probes(3)
		t.Set(o + hole0) // Compact walks the run now
		t.probes(4)
		for _, hidx := range holes {
			t.probe(hidx)
		}
		// grow by several words at once, look at what lies between
		far := t.hi + int64(64*(2+r.Intn(4))) + int64(r.Intn(64))
		t.Set(far)
		for w := int64(1); w <= 5; w++ {
			t.probe(far - 64*w)
			t.probe(far - 64*w + int64(r.Intn(64)))
		}
		t.probes(6)
		if r.Intn(2) == 0 {
			t.Compact()
		}
		r.Shuffle(len(holes), func(i, j int) { holes[i], holes[j] = holes[j], holes[i] })
		for _, hidx := range holes { // close the holes: more multi-word compactions
			t.Set(hidx)
			t.probes(1)
			if r.Intn(3) == 0 {
				t.Set(t.hi + int64(64*(2+r.Intn(3))))
			}
		}
		t.probes(8)
		t.done()
	}
	// 2. random histories.
	for h := 0; h < g.N(200, 6000); h++ {
		o := offsets[r.Intn(len(offsets))]
		if r.Intn(4) == 0 {
			o = int64(r.Intn(1<<14)) * 64
		}
		t := newTBGen(g, o)
		span := int64(64 * (1 + r.Intn(4)))
		n := 60 + r.Intn(g.N(200, 300))
		cursor := o
		for i := 0; i < n; i++ {
			switch x := r.Intn(100); {
			case x < 45: // dense progress so that words really fill up
				t.Set(cursor)
				cursor++
			case x < 70:
				t.Set(o + int64(r.Intn(int(span))))
			case x < 75:
				t.Set(cursor + int64(r.Intn(200)))
			case x < 78:
				t.Set(o - 1 - int64(r.Intn(130)))
				if o >= 1<<31 && r.Intn(2) == 0 { // far below the offset: distances beyond 2^31, 2^32, 2^37 bits
					far := []int64{0, 5, 63, 64, o - 1<<31, o - 1<<32 - 3, o - 1<<37, o - 1<<37 - 64, o - 1<<38 + 7, o / 2, o - 1<<31 + 1}[r.Intn(11)]
					if far >= 0 && far < o {
						t.Set(far)
						t.probes(2)
					}
				}
			case x < 83:
				t.Compact()
			case x < 86: // word boundary indexes
				t.Set((cursor &^ 63) + int64([]int{-1, 0, 1, 62, 63, 64, 65, 127, 128, 191}[r.Intn(10)]))
			default:
				t.probes(1)
			}
		}
		t.probes(5)
		t.done()
	}
	// 3. long histories crossing the 1024-word reclaim threshold (the state stays small). The words
	// before the crossing are filled front to back; what varies is the situation at the crossing:
	// how many already-full words follow the word whose completion moves Offset over the threshold
	// (Compact then drops several words at once), and which bits are live in the words after them.
	nlong := g.N(4, 16)
	for v := 0; v < nlong; v++ {
		o := int64(64 * r.Intn(3))
		t := newTBGen(g, o)
		pre := 0 // number of out-of-order full words right after the crossing word
		ahead := 0
		if v > 0 {
			pre = r.Intn(4)
			ahead = 1 + r.Intn(4)
		}
		if v == 1 {
			pre, ahead = 0, 3
		}
		if v == 2 {
			pre, ahead = 2, 2
		}
		cross := 1024 - pre - 1 // completing this word moves Offset to o+1024*64
		if v%4 == 3 {
			cross -= r.Intn(3) // crossing happens a little later, by a following word
		}
		perm := r.Perm(64)
		fillWord := func(w int) {
			for _, b := range perm {
				t.Set(o + int64(w*64+b))
			}
		}
		for w := 0; w < cross; w++ {
			if w%7 == 1 {
				perm = r.Perm(64)
			}
			fillWord(w)
			if w%131 == 0 {
				t.probes(2)
			}
		}
		// all of the crossing word but one bit
		hole := r.Intn(64)
		for b := 0; b < 64; b++ {
			if b != hole {
				t.Set(o + int64(cross*64+b))
			}
		}
		for w := cross + pre; w > cross; w-- { // full words after it, back to front
			fillWord(w)
		}
		live := []int64{}
		for a := 0; a < ahead; a++ { // live bits further on
			w := cross + pre + 1 + a
			if r.Intn(4) == 0 {
				w += r.Intn(3)
			}
			for n := 1 + r.Intn(3); n > 0; n-- {
				idx := o + int64(w*64+r.Intn(64))
				t.Set(idx)
				live = append(live, idx)
			}
		}
		t.probes(3)
		t.Set(o + int64(cross*64+hole)) // Offset jumps over the threshold here
		for _, idx := range live {
			t.probe(idx)
			t.probe(idx + 1)
			t.probe(idx - 64)
			t.probe(idx - 1)
		}
		t.probes(6)
		t.Compact()
		// carry on for a few words
		for w := cross + pre + 1; w < cross+pre+4; w++ {
			fillWord(w)
			t.probes(2)
		}
		for _, idx := range live {
			t.probe(idx)
			t.probe(idx + 64)
		}
		t.probes(6)
		t.done()
	}
	// 5. one compaction that drops more than a thousand words at once (1025..3000: beyond the initial capacity
	// and any fixed-size scratch block), after a bulk fill logged as range macro-steps; then the bitmap grows
	// again, by one word or far beyond the empty end, and what lies between is probed.
	bigs := []int{1025, 1030, 1100, 2047, 2048, 2050, 3000, 1024, 1023}
	for rep := 0; rep < g.N(3, 9); rep++ {
		o := int64(64 * r.Intn(3))
		nwords := bigs[(rep+int(g.Seed)*2)%len(bigs)]
		if rep < 3 {
			nwords = bigs[(rep+int(g.Seed)*2)%7] // the first three histories always drop more than 1024 words
		}
		t := newTBGen(g, o)
		hole0 := int64(r.Intn(64))
		var farLive []int64
		if rep%3 == 1 { // live bits far ahead (1100..3100 words behind the run): many words remain when the run is dropped
			for n := 1 + r.Intn(2); n > 0; n-- {
				idx := o + 64*int64(nwords+1100+r.Intn(2000)) + int64(r.Intn(64))
				t.Set(idx)
				farLive = append(farLive, idx)
			}
		}
		for b := int64(0); b < 64; b++ {
			if b != hole0 {
				t.Set(o + b)
			}
		}
		// words 1..nwords-1 full; sometimes a partial word and a few full ones behind them
		end := o + int64(nwords*64)
		if r.Intn(2) == 0 {
			mid := o + int64(64*(1+r.Intn(nwords-1)))
			t.SetRange(mid, end)
			t.probes(1)
			t.SetRange(o+64, mid)
		} else {
			t.SetRange(o+64, end)
		}
		var live []int64
		if r.Intn(2) == 0 {
			gap := end + int64(r.Intn(64))
			t.SetRange(end+64, end+64*int64(2+r.Intn(3)))
			if gap > end {
				t.SetRange(end, gap)
			}
			if gap+1 < end+64 {
				t.SetRange(gap+1, end+64)
			}
			live = append(live, gap)
		}
		t.probes(2)
		t.Set(o + hole0) // one Compact drops nwords words
		t.probes(3)
		for _, idx := range farLive {
			t.probe(idx)
			t.probe(idx - 1)
			t.probe(idx - 64)
			t.probe(idx&^63 + 63)
		}
		if len(farLive) > 0 {
			t.done() // (the sequel below assumes that nothing lies beyond the run)
			continue
		}
		// grow again
		k := []int{nwords - 1, 0, 1, 3, 1023, 1024, 1025, nwords, 2 * nwords}[r.Intn(9)]
		if rep%2 == 0 {
			k = nwords - 1 - r.Intn(20) // grow back to just below the old length: inside whatever capacity was kept
		}
		far := t.hi + int64(64*k) + int64(r.Intn(64))
		if r.Intn(3) == 0 {
			far = end + int64(64*k) + int64(r.Intn(64))
		}
		t.Set(far)
		for w := int64(0); w <= 8; w++ {
			t.probe(far - 64*w)
			t.probe(far - 64*w - int64(r.Intn(64)))
		}
		for i := 0; i < 12; i++ {
			t.probe(end + int64(r.Intn(int(far-end)+1)))
		}
		for _, idx := range live {
			t.probe(idx)
			t.Set(idx)
			t.probes(2)
		}
		t.Compact()
		t.probes(6)
		t.done()
	}
	// 4. a far bit first (many stored words), then fill from the front across the threshold region sparsely.
	for rep := 0; rep < g.N(1, 4); rep++ {
		o := int64(64 * r.Intn(5))
		t := newTBGen(g, o)
		far := o + int64(64*(1030+r.Intn(100))+r.Intn(64))
		t.Set(far)
		t.probes(5)
		for w := 0; w < 3; w++ {
			for b := 0; b < 64; b++ {
				t.Set(o + int64(w*64+b))
			}
			t.probes(3)
		}
		t.Compact()
		t.probes(8)
		t.done()
	}
}
