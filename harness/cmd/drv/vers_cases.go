package main

// Specification growth: package vers (Check / IsCompatible) on TLC-enumerated and seeded cases (X04).

import (
	"fmt"
	"strings"

	"github.com/openacid/low/vers"
)

func init() {
	props["X04"] = &Prop{Gen: genVers, Exec: map[string]func(in In, em *Emitter){"vers": execVers}}
}

func verString(v []int64) string {
	s := fmt.Sprintf("%d.%d.%d", v[0], v[1], v[2])
	if v[3] > 0 {
		s += fmt.Sprintf("-%d", v[3])
	}
	return s
}

// execVers renders the structured case. "render" picks among the spellings the range syntax allows for the same
// comparator ("=" as "", "=" or "=="; "!=" as "!=" or "!"); "valid": false passes a malformed version string.
func execVers(in In, em *Emitter) {
	v := in.Is("v")
	render := 0
	if in.has("render") {
		render = in.Int("render")
	}
	valid := !in.has("valid") || in.Bool("valid")
	ver := verString(v)
	if !valid {
		ver = []string{"1.2", "", "1.2.x", "v1.2.3", "1.2.3.4", "01.2.3"}[render%6]
	}
	var specs []string
	for i, conj := range toList(in.get("spec")) {
		var parts []string
		for j, c := range toList(conj) {
			cl := toList(c)
			op := cl[0].(string)
			switch op {
			case "=":
				op = []string{"", "=", "=="}[(render+i+j)%3]
			case "!=":
				op = []string{"!=", "!"}[(render+i+j)%2]
			}
			parts = append(parts, op+verString(toIs(cl[1])))
		}
		specs = append(specs, strings.Join(parts, " "))
	}
	o := J{}
	abn := guard(func() {
		o["compat"] = vers.IsCompatible(ver, specs)
		o["checkpanics"] = guard(func() { o["check"] = vers.Check(ver, specs...) }) != ""
		if _, ok := o["check"]; !ok {
			o["check"] = false
		}
	})
	in.m["valid"] = valid
	em.Emit("vers", J{"in": in.m, "out": o, "abn": abn, "ver": ver, "specs": specs})
	em.Calls(2)
}

func genVers(g *Gen) {
	r := g.R
	ops := []string{"<", "<=", ">", ">=", "=", "!="}
	rv := func() []int64 {
		n := func() int64 { return []int64{0, 1, 2, 9, 10, 11, 99, 100, int64(r.Intn(1000)), 1 << 20}[r.Intn(10)] }
		pre := int64(0)
		if r.Intn(3) == 0 {
			pre = int64(1 + r.Intn(12))
		}
		return []int64{n(), n(), n(), pre}
	}
	for c := 0; c < g.N(1500, 40000); c++ {
		v := rv()
		var spec [][]interface{}
		for i := 1 + r.Intn(3); i > 0; i-- {
			var conj []interface{}
			for j := 1 + r.Intn(3); j > 0; j-- {
				w := rv()
				if r.Intn(3) == 0 { // close to v: equal, or one component / the pre-release off by one
					w = append([]int64{}, v...)
					if k := r.Intn(5); k < 4 {
						w[k] += int64(r.Intn(3)) - 1
						if w[k] < 0 {
							w[k] = 0
						}
					}
				}
				conj = append(conj, []interface{}{ops[r.Intn(6)], w})
			}
			spec = append(spec, conj)
		}
		in := J{"v": v, "spec": spec, "render": r.Intn(6)}
		if r.Intn(25) == 0 {
			in["valid"] = false
		}
		g.Case("vers", in)
	}
}
