package main

// Specification growth: package tree on TLC-enumerated trees (GEN only: Gen_TreeStr).

import (
	"fmt"
	"strings"

	"github.com/openacid/low/tree"
)

func init() {
	props["X03"] = &Prop{Gen: func(g *Gen) {}, Exec: map[string]func(in In, em *Emitter){"tree": execTree}}
}

type tnode struct {
	uid, id, info string
	leaf          bool
	val           int64
	labels        []string
	kids          []*tnode
}

func mkTNode(in In) *tnode {
	n := &tnode{uid: in.S("uid"), id: in.S("id"), info: in.S("info"), leaf: in.Bool("leaf"), val: in.I("val")}
	for _, k := range in.L("kids") {
		n.labels = append(n.labels, k.S("label"))
		n.kids = append(n.kids, mkTNode(k.O("node")))
	}
	return n
}

// ttree implements tree.Tree; nil stands for the root node.
type ttree struct{ root *tnode }

func (t *ttree) nd(n interface{}) *tnode {
	if n == nil {
		return t.root
	}
	return n.(*tnode)
}
func (t *ttree) Child(node, label interface{}) interface{} {
	if node == nil && label == nil {
		return t.root
	}
	n := t.nd(node)
	for i, l := range n.labels {
		if l == label.(string) {
			return n.kids[i]
		}
	}
	return nil
}
func (t *ttree) Labels(node interface{}) []interface{} {
	n := t.nd(node)
	r := make([]interface{}, len(n.labels))
	for i, l := range n.labels {
		r[i] = l
	}
	return r
}
func (t *ttree) NodeID(node interface{}) string     { return t.nd(node).id }
func (t *ttree) LabelInfo(label interface{}) string { return label.(string) }
func (t *ttree) NodeInfo(node interface{}) string   { return t.nd(node).info }
func (t *ttree) LeafVal(node interface{}) (interface{}, bool) {
	n := t.nd(node)
	return n.val, n.leaf
}

func execTree(in In, em *Emitter) {
	tt := &ttree{mkTNode(in.O("tree"))}
	o := J{}
	abn := guard(func() {
		visits := [][]string{}
		tree.DepthFirst(tt, func(t tree.Tree, parent, label, node interface{}) {
			p, l := "", ""
			if parent != nil {
				p = parent.(*tnode).uid
			}
			if label != nil {
				l = fmt.Sprint(label)
			}
			visits = append(visits, []string{p, l, tt.nd(node).uid})
		})
		o = J{"visits": visits, "lines": strings.Split(tree.String(tt), "\n")}
	})
	em.Emit("tree", J{"in": in.m, "out": o, "abn": abn})
	em.Calls(2)
}
