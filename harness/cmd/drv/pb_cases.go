package main

// pbcmpl: C06 (round trips) and C07 (truncation, writer failure, corrupt headers). A case is a
// history on one byte stream: Stream/Marshal operations build it, Unmarshal/ReadHeader consume it
// through a scripted reader. Every operation is one trace event.

import (
	"encoding/binary"
	stderrors "errors"
	"io"
	"sort"

	"github.com/golang/protobuf/proto"
	"github.com/golang/protobuf/ptypes/wrappers"
	"github.com/openacid/errors"
	"github.com/openacid/low/pbcmpl"
)

func init() {
	exec := map[string]func(in In, em *Emitter){"pb": execPB}
	props["C06"] = &Prop{Gen: genC06, Exec: exec}
	props["C07"] = &Prop{Gen: genC07, Exec: exec}
}

// ---- messages

// rawMsg is a legacy message (own Marshal/Unmarshal): its encoding is its bytes.
type rawMsg struct{ data []byte }

func (m *rawMsg) Reset()                   { m.data = nil }
func (m *rawMsg) String() string           { return "raw" }
func (m *rawMsg) ProtoMessage()            {}
func (m *rawMsg) Marshal() ([]byte, error) { return append([]byte{}, m.data...), nil }
func (m *rawMsg) Unmarshal(b []byte) error { m.data = append([]byte{}, b...); return nil }

// rawVMsg additionally carries a version.
type rawVMsg struct {
	rawMsg
	ver string
}

func (m *rawVMsg) GetVersion() string { return m.ver }

// pbVMsg is a real protobuf message with a version.
type pbVMsg struct {
	*wrappers.BytesValue
	ver string
}

func (m *pbVMsg) GetVersion() string { return m.ver }

func mkMsg(kind string, hasver bool, ver string, payload []byte) proto.Message {
	switch kind {
	case "raw":
		if hasver {
			return &rawVMsg{rawMsg{payload}, ver}
		}
		return &rawMsg{payload}
	case "pb":
		if hasver {
			return &pbVMsg{&wrappers.BytesValue{Value: payload}, ver}
		}
		return &wrappers.BytesValue{Value: payload}
	case "pbs":
		return &wrappers.StringValue{Value: string(payload)}
	}
	fatalf("unknown message kind %q", kind)
	return nil
}

// ---- environment

type scriptWriter struct {
	script [][2]int // per Write call: bytes accepted, fail (0/1)
	calls  []J
	got    []byte
}

func (w *scriptWriter) Write(p []byte) (int, error) {
	i := len(w.calls)
	k, fail := len(p), false
	if i < len(w.script) && w.script[i][1] == 1 {
		fail = true
		if w.script[i][0] < k {
			k = w.script[i][0]
		}
	}
	w.got = append(w.got, p[:k]...)
	w.calls = append(w.calls, J{"offered": len(p), "k": k, "e": fail})
	if fail {
		return k, errInj
	}
	return k, nil
}

// scriptReader delivers data in chunks; after `avail` bytes (avail >= 0) it ends with EOF or fails.
type scriptReader struct {
	data   []byte
	avail  int
	fault  string
	chunks []int
	ci     int
	used   int
	// errWithData: the end of the data (EOF or the injected error) is reported by the same Read call that
	// delivers the last bytes, as io.Reader allows (iotest.DataErrReader, some network readers)
	errWithData bool
	bounds      *[]int // when set: the stream offset reached after every Read call (the caller's own chunking)
}

func (r *scriptReader) Read(p []byte) (int, error) {
	limit := len(r.data)
	if r.avail >= 0 && r.avail < limit {
		limit = r.avail
	}
	if r.used >= limit {
		if limit < len(r.data) && r.fault == "inj" {
			return 0, errInj
		}
		return 0, io.EOF
	}
	n := len(p)
	if len(r.chunks) > 0 {
		c := r.chunks[r.ci%len(r.chunks)]
		r.ci++
		if c < n {
			n = c
		}
	}
	if n > limit-r.used {
		n = limit - r.used
	}
	copy(p, r.data[r.used:r.used+n])
	r.used += n
	if r.bounds != nil {
		*r.bounds = append(*r.bounds, r.used)
	}
	if r.errWithData && r.used == limit && n > 0 {
		if limit < len(r.data) && r.fault == "inj" {
			return n, errInj
		}
		return n, io.EOF
	}
	return n, nil
}

func pbErrClass(err error) string {
	if err == nil {
		return "nil"
	}
	c := errors.Cause(err)
	// "whose cause is": the innermost error, through Cause() chains (pkg/errors style) or Unwrap() chains (%w)
	is := func(target error) bool { return c == target || stderrors.Is(err, target) }
	switch {
	case is(io.EOF):
		return "EOF"
	case is(io.ErrUnexpectedEOF):
		return "UnexpectedEOF"
	case is(errInj):
		return "inj"
	case is(pbcmpl.ErrInvalidHeaderSize):
		return "InvalidHeaderSize"
	}
	s := c.Error()
	if s == "bodysize is incorrect" {
		return "InvalidBodySize"
	}
	if len(s) > 60 {
		s = s[:60]
	}
	return "other:" + s
}

func execPB(in In, em *Emitter) {
	var wire []byte
	rpos := 0
	dst := map[string]proto.Message{}        // destination messages are reused across calls, as a caller would
	em.Emit("Stream", J{"bytes": []int64{}}) // every history starts on a fresh, empty stream
	ops := in.L("ops")
	for oi := 0; oi < len(ops); oi++ {
		op := ops[oi]
		k := op.S("k")
		ev := J{}
		var abn string
		if k == "CutScan" {
			// Where does the library's own chunking end a Read? The stream is read once, completely, through a reader
			// that hands out whatever is asked for and records the offsets reached; then the ordinary operations
			// "Unmarshal with the stream cut at such an offset (-1, +0, +1), Rewind" are queued: end-of-stream handling
			// changes exactly at the block boundaries of the implementation, whatever its block size is. (An input
			// selector: the queued operations are ordinary events, judged like any other.)
			var bounds []int
			kind := op.S("kind")
			quiet(func() {
				pbcmpl.Unmarshal(&scriptReader{data: wire, avail: -1, fault: "EOF", bounds: &bounds}, mkMsg(kind, false, "", nil))
			})
			pick := map[int]bool{}
			for i, b := range bounds {
				if i < 24 || i >= len(bounds)-12 || i%((len(bounds)/24)+1) == 0 {
					for d := -1; d <= 1; d++ {
						if c := b + d; c >= 0 && c < len(wire) {
							pick[c] = true
						}
					}
				}
			}
			var cuts []int
			for c := range pick {
				cuts = append(cuts, c)
			}
			sort.Ints(cuts)
			var queued []In
			for i, c := range cuts {
				fault := "EOF"
				if i%4 == 3 {
					fault = "inj"
				}
				queued = append(queued, In{J{"k": "Rewind"}}, In{J{"k": "Unmarshal", "avail": c, "fault": fault, "chunks": []interface{}{}, "kind": kind, "ewd": i%3 == 1}})
			}
			queued = append(queued, In{J{"k": "Rewind"}}, In{J{"k": "Unmarshal", "avail": -1, "fault": "EOF", "chunks": []interface{}{}, "kind": kind}})
			ops = append(ops[:oi+1], append(queued, ops[oi+1:]...)...)
			em.Scanned(1)
			continue
		}
		switch k {
		case "Stream":
			wire = append([]byte{}, op.Bs("bytes")...)
			rpos = 0
			ev["bytes"] = bytesJ(wire)
		case "Rewind":
			rpos = 0
		case "Marshal":
			var kind, ver string
			var hasver bool
			var payload []byte
			if op.has("plen") { // TLC-generated behaviour: version as a string, payload given by its length
				kind, hasver, ver = op.S("kind"), op.Bool("hasver"), op.S("vers")
				payload = make([]byte, op.Int("plen"))
				for i := range payload {
					payload[i] = byte(i*31 + len(wire) + 7)
				}
			} else {
				kind, hasver, ver, payload = op.S("kind"), op.Bool("hasver"), op.Str("ver"), op.Bs("payload")
			}
			msg := mkMsg(kind, hasver, ver, payload)
			enc, err := proto.Marshal(msg)
			if err != nil {
				fatalf("proto.Marshal: %v", err)
			}
			w := &scriptWriter{}
			for _, x := range toList(op.get("w")) {
				s := toIs(x)
				w.script = append(w.script, [2]int{int(s[0]), int(s[1])})
			}
			var n int64
			var merr error
			var size, hsize int
			abn = guard(func() {
				n, merr = pbcmpl.Marshal(w, msg)
				size, hsize = pbcmpl.Size(msg), pbcmpl.HeaderSize(msg)
			})
			wire = append(wire, w.got...)
			calls := w.calls
			if calls == nil {
				calls = []J{}
			}
			ev = J{"kind": kind, "hasver": hasver, "ver": strJ(ver), "enc": bytesJ(enc), "wcalls": calls,
				"n": num(n), "err": pbErrClass(merr), "written": bytesJ(w.got), "size": size, "hsize": hsize}
		case "Unmarshal", "ReadHeader":
			rd := &scriptReader{data: wire[rpos:], avail: op.Int("avail"), fault: op.S("fault"), errWithData: op.has("ewd") && op.Bool("ewd")}
			for _, c := range op.Is("chunks") {
				rd.chunks = append(rd.chunks, int(c))
			}
			kind := op.S("kind")
			ev = J{"avail": rd.avail, "fault": rd.fault, "kind": kind}
			if k == "Unmarshal" {
				d, ok := dst[kind]
				if !ok {
					d = mkMsg(kind, false, "", nil)
					dst[kind] = d
				}
				var n int64
				var ver string
				var uerr error
				abn = guard(func() { n, ver, uerr = pbcmpl.Unmarshal(rd, d) })
				body := []byte{}
				if abn == "" && uerr == nil {
					body, _ = proto.Marshal(d)
				}
				ev["n"], ev["ver"], ev["err"], ev["body"] = num(n), strJ(ver), pbErrClass(uerr), bytesJ(body)
			} else {
				var n int64
				var h pbcmpl.Header
				var herr error
				ver, hs, bs := "", int64(0), int64(0)
				abn = guard(func() {
					n, h, herr = pbcmpl.ReadHeader(rd)
					if herr == nil {
						ver, hs, bs = h.GetVersion(), h.GetHeaderSize(), h.GetBodySize()
					}
				})
				ev["n"], ev["ver"], ev["err"], ev["hsize"], ev["bsize"] = num(n), strJ(ver), pbErrClass(herr), num(hs), num(bs)
			}
			ev["used"] = rd.used
			rpos += rd.used
		default:
			fatalf("pb: unknown op %q", k)
		}
		ev["abn"] = abn
		em.Emit(k, ev)
		em.Calls(1)
		if abn != "" {
			return
		}
	}
}

// ---- generation

var pbBodyLens = []int{0, 1, 2, 31, 32, 33, 100, 300}

// versions related to each other: a version, the same followed by NUL and more bytes, by other bytes, a prefix
// of it (a decoder that remembers the previous version must not confuse them)
var pbVerFamilies = [][]string{
	{"1.0.0", "1.0.0\x00b", "1.0.0\x00\x00c", "1.0.0x", "1.0", "1.0.0\x00b"},
	{"1", "1\x001", "1\x00\x00\x00\x00\x00\x00\x00\x00\x00\x00\x00\x00\x00\x002", "12", ""},
	{"abcdefghijklmno", "abcdefghijklmnop", "abcdefghijklmn\x00p", "abcdefg"},
}

var pbVers = []string{"", "1", "1.0.0", "0.1.12-rc", "123456789012345", "1234567890123456", "1.2.3\x00rc1", "\x001", "v\xff\x80"}

func pbChunks(g *Gen) []int64 {
	switch g.R.Intn(5) {
	case 0:
		return []int64{} // whole
	case 1:
		return []int64{1}
	case 2:
		return []int64{int64(1 + g.R.Intn(40))}
	case 3:
		return []int64{31, 1, 1, 100}
	}
	return []int64{int64(1 + g.R.Intn(7)), int64(1 + g.R.Intn(50)), int64(1 + g.R.Intn(3))}
}

func pbMarshalOp(g *Gen, kind string, bodyLen int) J {
	r := g.R
	payload := randBytes(r, bodyLen)
	hasver := r.Intn(3) != 0
	if kind == "pbs" {
		hasver = false
		for i := range payload {
			payload[i] = 'a' + byte(r.Intn(26)) // valid UTF-8 for a StringValue
		}
	}
	return J{"k": "Marshal", "kind": kind, "hasver": hasver, "ver": strJ(pbVers[r.Intn(len(pbVers))]), "payload": bytesJ(payload), "w": [][]int64{}}
}

// withEWD marks about a third of the read operations of a history as using a reader that reports the end of
// its data together with the last bytes.
func withEWD(g *Gen, ops []J) []J {
	for _, op := range ops {
		if k := op["k"]; (k == "Unmarshal" || k == "ReadHeader") && g.R.Intn(3) == 0 {
			op["ewd"] = true
		}
	}
	return ops
}

func genC06(g *Gen) {
	r := g.R
	genBigFrames(g, g.N(4, 24))
	kinds := []string{"raw", "raw", "pb", "pb", "pbs"}
	// consecutive frames whose versions are related (see pbVerFamilies), each read with Unmarshal or ReadHeader
	for c := 0; c < g.N(60, 2000); c++ {
		fam := pbVerFamilies[r.Intn(len(pbVerFamilies))]
		var ops []J
		n := 2 + r.Intn(4)
		kinds2 := make([]string, n)
		for i := 0; i < n; i++ {
			kinds2[i] = []string{"raw", "pb"}[r.Intn(2)]
			mk := pbMarshalOp(g, kinds2[i], r.Intn(5))
			mk["hasver"] = true
			mk["ver"] = strJ(fam[r.Intn(len(fam))])
			ops = append(ops, mk)
		}
		for i := 0; i < n; i++ {
			ops = append(ops, J{"k": "Unmarshal", "avail": -1, "fault": "EOF", "chunks": pbChunks(g), "kind": kinds2[i]})
		}
		ops = append(ops, J{"k": "Rewind"})
		for i := 0; i < n; i++ { // and the headers alone, skipping over the bodies is not possible: read whole frames again
			ops = append(ops, J{"k": "Unmarshal", "avail": -1, "fault": "EOF", "chunks": []int64{}, "kind": kinds2[i]})
		}
		g.Case("pb", J{"ops": withEWD(g, ops)})
	}
	// the round trip after something went wrong: a read of the same stream that was cut short (end of stream or a
	// failing reader, inside the header or the body), then the stream is read again from its start
	for c := 0; c < g.N(120, 4000); c++ {
		nf := 1 + r.Intn(3)
		var ops []J
		var fk []string
		total := 0
		for i := 0; i < nf; i++ {
			kind := kinds[r.Intn(len(kinds))]
			bl := pbBodyLens[r.Intn(len(pbBodyLens))]
			ops = append(ops, pbMarshalOp(g, kind, bl))
			fk = append(fk, kind)
			total += 32 + bl
		}
		for rep := 1 + r.Intn(2); rep > 0; rep-- {
			cut := r.Intn(total + 1)
			if r.Intn(2) == 0 {
				cut = 33 + r.Intn(8) // just inside the first body
			}
			for i := 0; i < nf; i++ {
				ops = append(ops, J{"k": "Unmarshal", "avail": cut, "fault": []string{"EOF", "EOF", "inj"}[r.Intn(3)], "chunks": pbChunks(g), "kind": fk[i]})
				cut = -1 // the cut applies to the stream as it is when the call starts: only once
				break
			}
			ops = append(ops, J{"k": "Rewind"})
		}
		for i := 0; i < nf; i++ {
			ops = append(ops, J{"k": "Unmarshal", "avail": -1, "fault": "EOF", "chunks": pbChunks(g), "kind": fk[i]})
		}
		g.Case("pb", J{"ops": withEWD(g, ops)})
	}
	for c := 0; c < g.N(700, 25000); c++ {
		nf := 1 + r.Intn(4)
		var ops []J
		var fk []string
		for i := 0; i < nf; i++ {
			kind := kinds[r.Intn(len(kinds))]
			bl := pbBodyLens[r.Intn(len(pbBodyLens))]
			if r.Intn(25) == 0 {
				bl = 4000 + r.Intn(2000) // multi-KB
			}
			if r.Intn(4) == 0 {
				bl = 0 // empty bodies after non-empty ones matter for reused destinations
			}
			ops = append(ops, pbMarshalOp(g, kind, bl))
			fk = append(fk, kind)
		}
		for i := 0; i < nf; i++ {
			if r.Intn(4) == 0 {
				// look at the header first, on a copy of the position? ReadHeader consumes the header: the body would
				// be misread afterwards, so ReadHeader is only used on the last frame
				if i == nf-1 {
					ops = append(ops, J{"k": "ReadHeader", "avail": -1, "fault": "EOF", "chunks": pbChunks(g), "kind": fk[i]})
					break
				}
			}
			ops = append(ops, J{"k": "Unmarshal", "avail": -1, "fault": "EOF", "chunks": pbChunks(g), "kind": fk[i]})
		}
		// reading past the last frame: clean EOF
		ops = append(ops, J{"k": "Unmarshal", "avail": -1, "fault": "EOF", "chunks": pbChunks(g), "kind": "raw"})
		g.Case("pb", J{"ops": withEWD(g, ops)})
	}
}

// genBigFrames: a frame whose body exceeds 64 KiB (and 128 KiB) followed by small frames in the same stream,
// read through a reader that hands out everything it is asked for and through chunked ones.
func genBigFrames(g *Gen, n int) {
	r := g.R
	for c := 0; c < n; c++ {
		bl := []int{65537, 66000 + r.Intn(3000), 131073 + r.Intn(500), 65536}[c%4]
		kind := []string{"raw", "pb"}[c%2]
		ops := []J{pbMarshalOp(g, kind, bl), pbMarshalOp(g, "raw", 1+r.Intn(40)), pbMarshalOp(g, "pb", r.Intn(3))}
		chunks := [][]int64{{}, {4096}, {65536}, {70000}}[(c/2)%4]
		ops = append(ops, J{"k": "Unmarshal", "avail": -1, "fault": "EOF", "chunks": chunks, "kind": kind},
			J{"k": "Unmarshal", "avail": -1, "fault": "EOF", "chunks": pbChunks(g), "kind": "raw"},
			J{"k": "Unmarshal", "avail": -1, "fault": "EOF", "chunks": pbChunks(g), "kind": "pb"},
			J{"k": "Unmarshal", "avail": -1, "fault": "EOF", "chunks": []int64{}, "kind": "raw"})
		g.Case("pb", J{"ops": withEWD(g, ops)})
	}
}

func pbHeader(ver string, hs, bs uint64) []byte {
	h := make([]byte, 32)
	copy(h, ver)
	binary.LittleEndian.PutUint64(h[16:], hs)
	binary.LittleEndian.PutUint64(h[24:], bs)
	return h
}

func genC07(g *Gen) {
	r := g.R
	kinds := []string{"raw", "pb"}
	bodyLens := []int{0, 1, 2, 31, 33, 100}
	nmsg := g.N(10, 60)
	for m := 0; m < nmsg; m++ {
		kind := kinds[m%2]
		bl := bodyLens[m%len(bodyLens)]
		if m >= 2*len(bodyLens) {
			bl = r.Intn(120)
		}
		if m%5 == 4 {
			kind = "raw"                                              // the encoding is the payload: cut points are exact
			bl = []int{4097, 8200, 4090 + r.Intn(20), 12300}[(m/5)%4] // bodies beyond 4 KiB: buffered / chunked I/O boundaries
		}
		mk := pbMarshalOp(g, kind, bl)
		flen := 32 + bl
		if kind == "pb" && bl > 0 {
			flen = -1 // the protobuf encoding adds a tag and a length: cut points are taken from the real frame below
		}
		_ = flen
		// every cut point 0 <= k < len(frame), EOF and injected error, then the rest is read normally
		step := 1
		if bl > 200 {
			step = 97
		}
		maxk := 32 + bl + 8
		for k := 0; k < maxk; k += step {
			for _, fault := range []string{"EOF", "inj"} {
				if fault == "inj" && k%3 != 0 && !(!g.Quick()) {
					continue
				}
				ops := []J{mk,
					{"k": "Unmarshal", "avail": k, "fault": fault, "chunks": pbChunks(g), "kind": kind},
					{"k": "Unmarshal", "avail": -1, "fault": "EOF", "chunks": []int64{}, "kind": "raw"}}
				if k%2 == 0 || k > 32 {
					// ... or the stream is read again from its start: a failed Unmarshal leaves nothing behind
					ops = []J{mk,
						{"k": "Unmarshal", "avail": k, "fault": fault, "chunks": pbChunks(g), "kind": kind},
						{"k": "Rewind"},
						{"k": "Unmarshal", "avail": -1, "fault": "EOF", "chunks": pbChunks(g), "kind": kind}}
				}
				g.Case("pb", J{"ops": withEWD(g, ops)})
			}
			if k <= 40 || k%5 == 0 {
				g.Case("pb", J{"ops": []J{mk, {"k": "ReadHeader", "avail": k, "fault": []string{"EOF", "inj"}[k%2], "chunks": pbChunks(g), "kind": kind}}})
			}
		}
		if bl > 200 { // cut points around 4 KiB boundaries inside a large body
			ks := []int{32 + bl - 1, 32 + bl, 512, 1024, 2048, 32 + 512, 32 + 1024, 32 + 2048}
			for j := 1; j*4096 <= bl+32; j++ {
				for d := -1; d <= 1; d++ {
					ks = append(ks, j*4096+d, 32+j*4096+d)
				}
			}
			for _, k := range ks {
				for _, fault := range []string{"EOF", "inj"} {
					ops := []J{mk, {"k": "Unmarshal", "avail": k, "fault": fault, "chunks": pbChunks(g), "kind": kind}}
					g.Case("pb", J{"ops": withEWD(g, ops)})
				}
			}
		}
		// every writer failure point: on the header write, on the body write, partial or not
		wpoints := [][][]int64{}
		for k := 0; k <= 32; k += 1 + (m % 3) {
			wpoints = append(wpoints, [][]int64{{int64(k), 1}})
		}
		for k := 0; k <= bl+3; k += 1 + bl/40 {
			wpoints = append(wpoints, [][]int64{{0, 0}, {int64(k), 1}})
		}
		if bl > 200 {
			for _, k := range []int64{4063, 4064, 4065, 4095, 4096, 4097} {
				wpoints = append(wpoints, [][]int64{{0, 0}, {k, 1}})
			}
		}
		for _, wp := range wpoints {
			bad := J{}
			for k2, v := range mk {
				bad[k2] = v
			}
			bad["w"] = wp
			// the truncated output is then read back: never a success
			ops := []J{bad, {"k": "Unmarshal", "avail": -1, "fault": "EOF", "chunks": pbChunks(g), "kind": "raw"}}
			g.Case("pb", J{"ops": withEWD(g, ops)})
		}
	}
	// a Marshal that failed (writer error inside the header, at its end, inside the body) leaves nothing behind: on a
	// fresh stream the next frames, of the same or another size class (small, 4 KiB, 16 KiB+, 64 KiB+), are whole
	for c := 0; c < g.N(40, 1200); c++ {
		sizes := []int{5, 100, 4097, 16384, 16385, 20000, 40000, 70000}
		b1, b2 := sizes[r.Intn(len(sizes))], sizes[r.Intn(len(sizes))]
		if c%2 == 0 {
			b1, b2 = sizes[3+r.Intn(5)], sizes[3+r.Intn(5)] // both large
		}
		kind := []string{"raw", "pb"}[r.Intn(2)]
		bad := pbMarshalOp(g, kind, b1)
		k := []int64{0, 1, 24, 31, 32, 33, 40, int64(32 + b1/2), int64(31 + b1), int64(32 + b1 - 1)}[r.Intn(10)]
		if k < 32 || r.Intn(2) == 0 {
			bad["w"] = [][]int64{{k, 1}} // fails on the first write
		} else {
			bad["w"] = [][]int64{{0, 0}, {k - 32, 1}} // header accepted, fails on a later write
		}
		ops := []J{bad, {"k": "Stream", "bytes": []int64{}}}
		kinds2 := []string{}
		for i := 1 + r.Intn(2); i > 0; i-- {
			k2 := []string{"raw", "pb", kind}[r.Intn(3)]
			ops = append(ops, pbMarshalOp(g, k2, b2))
			kinds2 = append(kinds2, k2)
			b2 = sizes[r.Intn(len(sizes))]
		}
		for _, k2 := range kinds2 {
			ops = append(ops, J{"k": "Unmarshal", "avail": -1, "fault": "EOF", "chunks": pbChunks(g), "kind": k2})
		}
		g.Case("pb", J{"ops": withEWD(g, ops)})
	}
	// frames of 70 KB .. 1.2 MB (thorough: 4.3 MB) re-read cut at the offsets where the implementation's own Read calls
	// end (CutScan): block sizes nobody would guess (e.g. 2^20 - 512) are found by looking
	for c := 0; c < g.N(3, 12); c++ {
		bl := []int{1200000, 70000, 300000, 2200000, 4300000, 1048064 + 40, 131072, 600000, 3000000, 1100000, 65536, 2097152}[c]
		kind := []string{"raw", "raw", "pb"}[c%3]
		mk := J{"k": "Marshal", "kind": kind, "hasver": c%2 == 0, "vers": "1.2.3", "plen": bl, "w": [][]int64{}}
		g.Case("pb", J{"ops": []J{mk, {"k": "CutScan", "kind": kind}}})
	}
	// one large frame, read again and again (Rewind) with the stream cut at every block boundary j*2^k and
	// 32 + j*2^k (+-1) for 2^k = 512 .. 65536: chunked body readers change their EOF handling exactly there
	for c := 0; c < g.N(1, 6); c++ {
		bl := []int{70001, 140001, 65536 + 32768, 32769, 200000, 66000}[c]
		ops := []J{pbMarshalOp(g, "raw", bl)}
		seen := map[int]bool{}
		for k := uint(9); k <= 17; k++ {
			for j := 1; j <= 3; j++ {
				for _, base := range []int{0, 32} {
					for d := -1; d <= 1; d++ {
						cut := base + j<<k + d
						if cut >= 32+bl || cut < 0 || seen[cut] {
							continue
						}
						seen[cut] = true
						fault := "EOF"
						if (cut+int(k))%5 == 0 {
							fault = "inj"
						}
						ops = append(ops, J{"k": "Unmarshal", "avail": cut, "fault": fault, "chunks": pbChunks(g), "kind": "raw"}, J{"k": "Rewind"})
						if len(seen)%7 == 0 { // and the whole frame in between
							ops = append(ops, J{"k": "Unmarshal", "avail": -1, "fault": "EOF", "chunks": pbChunks(g), "kind": "raw"}, J{"k": "Rewind"})
						}
					}
				}
			}
		}
		ops = append(ops, J{"k": "Unmarshal", "avail": -1, "fault": "EOF", "chunks": pbChunks(g), "kind": "raw"})
		g.Case("pb", J{"ops": withEWD(g, ops)})
	}
	// corrupt headers: header-size and body-size fields set to any uint64
	hsVals := []uint64{0, 31, 33, 1 << 32, 1 << 63, ^uint64(0), 32 << 8, 32 | 1<<56}
	bsVals := func(avail uint64) []uint64 {
		return []uint64{avail - 1, avail, avail + 1, 1 << 24, 1 << 31, 1<<31 - 1, 1 << 32, 1<<32 - 1, 1 << 40, 1 << 47, 1 << 62, 1<<63 - 1, 1<<63 - 2,
			1<<63 - 511, 1<<63 - 512, 1<<63 - 513, 1<<63 - 4096, 1<<63 - 65536, 1 << 63, ^uint64(0), 1<<63 | 5, ^uint64(0) - 511}
	}
	for c := 0; c < g.N(3, 30); c++ {
		avail := uint64(1 + r.Intn(40))
		if c == 0 {
			avail = 3
		}
		body := randBytes(r, int(avail))
		ver := pbVers[r.Intn(len(pbVers))]
		for _, hs := range hsVals {
			s := append(pbHeader(ver, hs, avail), body...)
			g.Case("pb", J{"ops": []J{{"k": "Stream", "bytes": bytesJ(s)},
				{"k": "Unmarshal", "avail": -1, "fault": "EOF", "chunks": pbChunks(g), "kind": "raw"}}})
			g.Case("pb", J{"ops": []J{{"k": "Stream", "bytes": bytesJ(s)},
				{"k": "ReadHeader", "avail": -1, "fault": "EOF", "chunks": pbChunks(g), "kind": "raw"}}})
		}
		for _, bs := range bsVals(avail) {
			s := append(pbHeader(ver, 32, bs), body...)
			g.Case("pb", J{"ops": []J{{"k": "Stream", "bytes": bytesJ(s)},
				{"k": "Unmarshal", "avail": -1, "fault": "EOF", "chunks": pbChunks(g), "kind": "raw"},
				{"k": "Unmarshal", "avail": -1, "fault": "EOF", "chunks": []int64{}, "kind": "raw"}}})
			g.Case("pb", J{"ops": []J{{"k": "Stream", "bytes": bytesJ(s)},
				{"k": "ReadHeader", "avail": -1, "fault": "EOF", "chunks": pbChunks(g), "kind": "raw"}}})
		}
	}
	// arbitrary bytes
	for c := 0; c < g.N(300, 10000); c++ {
		s := randBytes(r, r.Intn(80))
		if r.Intn(2) == 0 && len(s) >= 32 { // a plausible header size makes the body-size field matter
			binary.LittleEndian.PutUint64(s[16:], 32)
			if r.Intn(2) == 0 {
				binary.LittleEndian.PutUint64(s[24:], uint64(r.Intn(60)))
			}
		}
		ops := []J{{"k": "Stream", "bytes": bytesJ(s)}}
		for i := 0; i < 3; i++ {
			k := "Unmarshal"
			if r.Intn(3) == 0 {
				k = "ReadHeader"
			}
			ops = append(ops, J{"k": k, "avail": -1, "fault": "EOF", "chunks": pbChunks(g), "kind": "raw"})
		}
		g.Case("pb", J{"ops": withEWD(g, ops)})
	}
	// random fault schedules over several frames
	for c := 0; c < g.N(200, 8000); c++ {
		var ops []J
		for i := 1 + r.Intn(3); i > 0; i-- {
			mk := pbMarshalOp(g, "raw", pbBodyLens[r.Intn(len(pbBodyLens))])
			if r.Intn(3) == 0 {
				mk["w"] = [][]int64{{int64(r.Intn(33)), int64(r.Intn(2))}, {int64(r.Intn(40)), int64(r.Intn(2))}}
			}
			ops = append(ops, mk)
		}
		for i := 0; i < 5; i++ {
			avail := -1
			if r.Intn(2) == 0 {
				avail = r.Intn(150)
			}
			ops = append(ops, J{"k": "Unmarshal", "avail": avail, "fault": []string{"EOF", "inj"}[r.Intn(2)], "chunks": pbChunks(g), "kind": "raw"})
		}
		g.Case("pb", J{"ops": withEWD(g, ops)})
	}
}
