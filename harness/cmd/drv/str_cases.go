package main

// bitword (C08), bitstr (C09), sigbits (C16, C17).

import (
	"math/rand"
	"sort"
	"strings"

	"github.com/openacid/low/bitstr"
	"github.com/openacid/low/bitword"
	"github.com/openacid/low/sigbits"
)

func init() {
	exec := map[string]func(in In, em *Emitter){
		"bw": execBW, "bwtostr": execBWToStr, "bwfd": execBWFD, "bwstrs": execBWStrs,
		"bscmp": execBSCmp, "bsupto": execBSUpto,
		"fdb": execFDB, "fdbbig": execFDBBig, "cntpbig": execCntPBig, "shardbig": execShardBig, "cntp": execCntP, "shard": execShard,
	}
	props["C08"] = &Prop{Gen: genC08, Exec: exec, Trivial: func(k string, in In) bool { return k == "bw" && len(in.Bs("s")) == 0 }}
	props["C09"] = &Prop{Gen: genC09, Exec: exec}
	props["C16"] = &Prop{Gen: genC16, Exec: exec, Trivial: func(k string, in In) bool { return in.has("keys") && len(toList(in.get("keys"))) < 2 }}
	props["C17"] = &Prop{Gen: genC17, Exec: exec, Trivial: func(k string, in In) bool { return in.has("keys") && len(toList(in.get("keys"))) < 2 }}
}

// ---------------------------------------------------------------- C08

func execBW(in In, em *Emitter) {
	s := in.Str("s")
	n := in.Int("n")
	o := J{}
	calls := 0
	abn := guard(func() {
		bw := bitword.BitWord[n]
		ws := bw.FromStr(s)
		get := make([]int64, 0, len(ws))
		for i := 0; i < len(s)*8/n; i++ {
			get = append(get, int64(bw.Get(s, i)))
		}
		// The strings ToStr returns are looked at only after the caller has reused its word slice: a Go string is a
		// value, it cannot change once returned.
		wsJ := bytesJ(ws)
		truncS := make([]string, 0, len(ws)+1)
		for k := 0; k <= len(ws); k++ {
			truncS = append(truncS, bw.ToStr(ws[:k]))
		}
		whole := bw.ToStr(ws)
		for i := range ws {
			ws[i] ^= 0xff
		}
		trunc := make([][]int64, 0, len(ws)+1)
		for _, t := range truncS {
			trunc = append(trunc, strJ(t))
		}
		calls = 2 + len(get) + len(trunc)
		o = J{"words": wsJ, "get": get, "tostr": strJ(whole), "trunc": trunc}
	})
	em.Emit("bw", J{"in": in.m, "out": o, "abn": abn})
	em.Calls(calls)
}

func execBWToStr(in In, em *Emitter) {
	ws := in.Bs("ws")
	n := in.Int("n")
	o := J{}
	abn := guard(func() {
		bw := bitword.BitWord[n]
		s := bw.ToStr(ws)
		back := bytesJ(bw.FromStr(s))
		for i := range ws { // the caller reuses its word slice; the string it got stays what it was
			ws[i] ^= 0xff
		}
		o = J{"s": strJ(s), "back": back}
	})
	em.Emit("bwtostr", J{"in": in.m, "out": o, "abn": abn})
	em.Calls(2)
}

func execBWFD(in In, em *Emitter) {
	a, b := in.Str("a"), in.Str("b")
	n := in.Int("n")
	wl := toList(in.get("windows"))
	fd := make([]int64, len(wl))
	fda := make([]int64, len(wl))
	// the same values, sharing memory where the values allow it: a prefix is a substring of the longer string
	aa, ab := a, b
	switch {
	case strings.HasPrefix(a, b):
		ab = a[:len(b)]
	case strings.HasPrefix(b, a):
		aa = b[:len(a)]
	}
	abn := guard(func() {
		bw := bitword.BitWord[n]
		for j, x := range wl {
			fe := toIs(x)
			fd[j] = num(int64(bw.FirstDiff(a, b, int(fe[0]), int(fe[1]))))
			fda[j] = num(int64(bw.FirstDiff(aa, ab, int(fe[0]), int(fe[1]))))
		}
	})
	o := J{"fd": fd, "fda": fda}
	if abn != "" {
		o = J{}
	}
	em.Emit("bwfd", J{"in": in.m, "out": o, "abn": abn})
	em.Calls(len(wl))
}

func execBWStrs(in In, em *Emitter) {
	strs := in.Strs("strs")
	n := in.Int("n")
	o := J{}
	abn := guard(func() {
		bw := bitword.BitWord[n]
		wss := bw.FromStrs(strs)
		wj := make([][]int64, len(wss))
		for i, w := range wss {
			wj[i] = bytesJ(w)
		}
		back := bw.ToStrs(wss)
		for _, w := range wss { // (as in execBW: the caller reuses its word slices)
			for i := range w {
				w[i] ^= 0xff
			}
		}
		o = J{"words": wj, "back": strsJ(back)}
	})
	em.Emit("bwstrs", J{"in": in.m, "out": o, "abn": abn})
	em.Calls(2)
}

func genC08(g *Gen) {
	r := g.R
	widths := []int{1, 2, 4, 8}
	// all 1-byte strings, and 2-byte strings (quick: a seeded sample; thorough: all 65,536)
	for _, n := range widths {
		g.Case("bw", J{"s": []int64{}, "n": n})
		for b := 0; b < 256; b++ {
			g.Case("bw", J{"s": []int64{int64(b)}, "n": n})
		}
	}
	if g.Quick() {
		for c := 0; c < 1500; c++ {
			g.Case("bw", J{"s": []int64{int64(r.Intn(256)), int64(r.Intn(256))}, "n": widths[c%4]})
		}
	} else {
		for v := 0; v < 65536; v++ {
			g.Case("bw", J{"s": []int64{int64(v >> 8), int64(v & 255)}, "n": widths[v%4]})
			if v%16 == 0 {
				g.Case("bw", J{"s": []int64{int64(v >> 8), int64(v & 255)}, "n": widths[(v/16+1)%4]})
			}
		}
	}
	for c := 0; c < g.N(800, 30000); c++ {
		g.Case("bw", J{"s": bytesJ(randBytes(r, r.Intn(41))), "n": widths[r.Intn(4)]})
	}
	for c := 0; c < g.N(300, 10000); c++ { // runs of equal bytes (zeros, 0xff ...) of 8 / 16 bytes, aligned or not
		g.Case("bw", J{"s": bytesJ(runBytes(r, 9+r.Intn(40))), "n": widths[r.Intn(4)]})
	}
	for c := 0; c < g.N(600, 20000); c++ {
		n := widths[r.Intn(4)]
		ws := make([]int64, r.Intn(40))
		for i := range ws {
			switch r.Intn(3) {
			case 0:
				ws[i] = 1<<uint(n) - 1
			case 1:
				ws[i] = 0
			default:
				ws[i] = int64(r.Intn(1 << uint(n)))
			}
		}
		g.Case("bwtostr", J{"ws": ws, "n": n})
	}
	// FirstDiff: pairs with a common prefix of every length, windows around the limits
	for c := 0; c < g.N(700, 25000); c++ {
		n := widths[r.Intn(4)]
		la := r.Intn(9)
		a := randBytes(r, la)
		var b []byte
		switch r.Intn(5) {
		case 0:
			b = append([]byte{}, a...)
		case 1:
			b = append(append([]byte{}, a...), randBytes(r, r.Intn(4))...)
		case 2:
			b = append([]byte{}, a[:r.Intn(la+1)]...)
		default:
			b = append([]byte{}, a...)
			b = append(b, randBytes(r, r.Intn(3))...)
			if len(b) > 0 {
				b[r.Intn(len(b))] ^= 1 << uint(r.Intn(8)) // a single differing bit
			}
			if r.Intn(3) == 0 && len(b) > 0 {
				b = b[:r.Intn(len(b)+1)]
			}
		}
		wa, wb := la*8/n, len(b)*8/n
		mx := wa
		if wb > mx {
			mx = wb
		}
		var windows [][]int64
		windows = append(windows, []int64{0, -1})
		for i := 0; i < 25; i++ {
			from := r.Intn(mx + 3)
			end := r.Intn(mx+5) - 1
			windows = append(windows, []int64{int64(from), int64(end)})
		}
		for from := 0; from <= mx+2 && from < 12; from++ {
			windows = append(windows, []int64{int64(from), -1}, []int64{int64(from), int64(mx + 3)}, []int64{int64(from), int64(from)})
		}
		g.Case("bwfd", J{"a": bytesJ(a), "b": bytesJ(b), "n": n, "windows": windows})
	}
	// long strings (9..48 bytes) that are identical except for one or two single-bit differences: block-wise
	// comparison code skips equal 8/16-byte blocks; from is placed around the differing word, aligned and not
	for c := 0; c < g.N(500, 20000); c++ {
		n := widths[r.Intn(4)]
		la := 9 + r.Intn(40)
		a := randBytes(r, la)
		b := append([]byte{}, a...)
		if r.Intn(6) == 0 {
			b = b[:la-r.Intn(9)]
		}
		var diffs []int
		for k := 1 + r.Intn(2); k > 0 && len(b) > 0; k-- {
			p := r.Intn(8 * len(b))
			b[p/8] ^= 0x80 >> uint(p%8)
			diffs = append(diffs, p/n)
		}
		wa, wb := la*8/n, len(b)*8/n
		mx := wa
		if wb > mx {
			mx = wb
		}
		var windows [][]int64
		windows = append(windows, []int64{0, -1})
		for _, d := range diffs {
			for _, df := range []int{-9, -8, -7, -3, -2, -1, 0, 1, 2} {
				from := d + df
				if from < 0 {
					continue
				}
				windows = append(windows, []int64{int64(from), -1}, []int64{int64(from), int64(mx + 1)}, []int64{int64(from), int64(d + 1 + r.Intn(70))}, []int64{int64(from), int64(d)})
			}
		}
		for i := 0; i < 6; i++ {
			windows = append(windows, []int64{int64(r.Intn(mx + 2)), int64(r.Intn(mx+4) - 1)})
		}
		g.Case("bwfd", J{"a": bytesJ(a), "b": bytesJ(b), "n": n, "windows": windows})
	}
	for c := 0; c < g.N(100, 3000); c++ {
		var strs [][]int64
		for i := r.Intn(6); i > 0; i-- {
			strs = append(strs, bytesJ(randBytes(r, r.Intn(8))))
		}
		if strs == nil {
			strs = [][]int64{}
		}
		g.Case("bwstrs", J{"strs": strs, "n": widths[r.Intn(4)]})
	}
}

// ---------------------------------------------------------------- C09

func execBSCmp(in In, em *Emitter) {
	items := toList(in.get("items"))
	pairs := toList(in.get("pairs"))
	o := J{}
	abn := guard(func() {
		enc := make([][]byte, len(items))
		lens := make([]int64, len(items))
		for i, x := range items {
			it := toList(x)
			// an encoded bit string is a value: the caller may keep it anywhere, e.g. inside a larger buffer (a slice
			// with capacity to spare, other data behind it)
			enc[i] = roomy(bitstr.New(string(toBytes(it[0])), int32(toI(it[1])), int32(toI(it[2]))), i)
			lens[i] = num(int64(bitstr.Len(enc[i])))
		}
		cmp := make([]int64, len(pairs))
		cmpa := make([]int64, len(pairs))
		for j, x := range pairs {
			ab := toIs(x)
			a, b := enc[ab[0]], enc[ab[1]]
			cmp[j] = num(int64(bitstr.Cmp(a, b)))
			// the same values sharing memory where they allow it (one a prefix of the other): same answer
			switch {
			case len(a) <= len(b) && string(b[:len(a)]) == string(a):
				a = b[:len(a):len(a)]
			case len(b) < len(a) && string(a[:len(b)]) == string(b):
				b = a[:len(b):len(b)]
			}
			cmpa[j] = num(int64(bitstr.Cmp(a, b)))
		}
		o = J{"lens": lens, "cmp": cmp, "cmpa": cmpa}
	})
	em.Emit("bscmp", J{"in": in.m, "out": o, "abn": abn})
	em.Calls(2*len(items) + len(pairs))
}

// roomy copies a byte slice into a larger array: spare capacity holding garbage behind it (every other time none).
func roomy(b []byte, k int) []byte {
	if k%3 == 2 {
		return b
	}
	spare := 1 + 9*(k%2)
	full := make([]byte, len(b)+spare)
	copy(full, b)
	for i := len(b); i < len(full); i++ {
		full[i] = byte(0xff - 0x5a*(k%2))
	}
	return full[:len(b)]
}

// Two StrCmpUpto calls inlined into one function, the first with an empty string: a call pattern
// under which a slice header built from a bare string header reads a garbage capacity.
func strCmpUptoAfterEmpty(empty, a string, b []byte) int {
	bitstr.StrCmpUpto(empty, b)
	return bitstr.StrCmpUpto(a, b)
}

func execBSUpto(in In, em *Emitter) {
	it := toList(in.get("item"))
	as := toList(in.get("as"))
	o := J{}
	var none []byte
	abn := guard(func() {
		b := roomy(bitstr.New(string(toBytes(it[0])), int32(toI(it[1])), int32(toI(it[2]))), len(as))
		cu := make([]int64, len(as))
		scu := make([]int64, len(as))
		scu2 := make([]int64, len(as))
		for j, x := range as {
			a := toBytes(x)
			before := append([]byte{}, a...)
			cu[j] = num(int64(bitstr.CmpUpto(a, b)))
			scu[j] = num(int64(bitstr.StrCmpUpto(string(a), b)))
			scu2[j] = num(int64(strCmpUptoAfterEmpty(string(none), string(a), b)))
			if string(before) != string(a) {
				panic("CmpUpto modified its argument")
			}
		}
		o = J{"len": num(int64(bitstr.Len(b))), "cu": cu, "scu": scu, "scu2": scu2}
	})
	em.Emit("bsupto", J{"in": in.m, "out": o, "abn": abn})
	em.Calls(1 + 3*len(as))
}

var bsBytes = []byte{0x00, 0x80, 0xff, 0x7f, 'a', 0x01, 0xfe, 0x40}

func bsString(r *rand.Rand, n int) []byte {
	if n >= 9 && r.Intn(6) == 0 {
		return runBytes(r, n)
	}
	b := make([]byte, n)
	for i := range b {
		if r.Intn(4) == 0 {
			b[i] = byte(r.Intn(256))
		} else {
			b[i] = bsBytes[r.Intn(len(bsBytes))]
		}
	}
	return b
}

func genC09(g *Gen) {
	r := g.R
	item := func(s []byte, f, t int) []interface{} { return []interface{}{bytesJ(s), f, t} }
	// Cmp / Len: groups of related bit strings; all pairs of the group
	for c := 0; c < g.N(700, 25000); c++ {
		n := []int{0, 1, 2, 3, 6, 7, 8, 9, 10, 15, 16, 17, 20, 31, 32, 33, 48, 63, 64, 65, 127, 128, 129}[r.Intn(23)]
		base := bsString(r, n)
		var items [][]interface{}
		add := func(s []byte, f, t int) {
			if f < 0 {
				f = 0
			}
			if t > 8*len(s) {
				t = 8 * len(s)
			}
			if f > t {
				f = t
			}
			items = append(items, item(s, f, t))
		}
		add(base, 0, 8*n)
		for k := 0; k < 7; k++ {
			s := append([]byte{}, base...)
			t := r.Intn(8*n + 1)
			f := 0
			switch r.Intn(7) {
			case 0: // a prefix of every bit length
			case 1: // same prefix, tail differs
				if n > 0 {
					p := r.Intn(8 * n)
					s[p/8] ^= 0x80 >> uint(p%8)
					t = p + 1 + r.Intn(8*n-p)
				}
			case 2: // longer
				s = append(s, bsString(r, 1+r.Intn(3))...)
				t = 8*n + r.Intn(8*(len(s)-n)+1)
			case 3: // aligned end
				t = 8 * r.Intn(n+1)
			case 4: // empty ranges, aligned and not
				t = r.Intn(8*n + 1)
				f = t
			case 5: // unaligned from: the encoded string starts at the byte boundary below it
				t = r.Intn(8*n + 1)
				f = r.Intn(t + 1)
			default:
				s = bsString(r, r.Intn(20))
				t = r.Intn(8*len(s) + 1)
			}
			add(s, f, t)
		}
		var pairs [][]int64
		for i := range items {
			for j := range items {
				pairs = append(pairs, []int64{int64(i), int64(j)})
			}
		}
		g.Case("bscmp", J{"items": items, "pairs": pairs})
	}
	// every (from, to) of short strings
	for c := 0; c < g.N(8, 200); c++ {
		s := bsString(r, c%4)
		var items [][]interface{}
		for f := 0; f <= 8*len(s); f++ {
			for t := f; t <= 8*len(s); t++ {
				items = append(items, item(s, f, t))
			}
		}
		var pairs [][]int64
		for k := 0; k < 300; k++ {
			pairs = append(pairs, []int64{int64(r.Intn(len(items))), int64(r.Intn(len(items)))})
		}
		g.Case("bscmp", J{"items": items, "pairs": pairs})
	}
	// CmpUpto / StrCmpUpto: plain strings shorter, equal, one byte longer, much longer; garbage in the masked-out bits
	for c := 0; c < g.N(1500, 60000); c++ {
		n := []int{0, 1, 2, 3, 5, 6, 7, 8, 9, 10, 11, 15, 16, 17, 24, 31, 32, 33, 47, 63, 64, 65, 127, 128, 129}[r.Intn(25)]
		s := bsString(r, n)
		t := r.Intn(8*n + 1)
		if r.Intn(4) == 0 {
			t = 8 * r.Intn(n+1)
		}
		f := 0
		if r.Intn(6) == 0 {
			f = r.Intn(t + 1)
		}
		st := f / 8
		payload := s[st : (t+7)/8]
		var as [][]int64
		addA := func(a []byte) { as = append(as, bytesJ(a)) }
		addA([]byte{})
		addA(payload)
		for k := 0; k < 10; k++ {
			a := append([]byte{}, payload...)
			switch r.Intn(8) {
			case 0:
				a = a[:r.Intn(len(a)+1)] // shorter: an exact byte prefix
			case 1:
				a = append(a, bsString(r, 1)...) // one byte longer
			case 2:
				a = append(a, bsString(r, 2+r.Intn(12))...) // much longer
			case 3:
				if len(a) > 0 { // garbage in the bits beyond `to` of the last byte
					a[len(a)-1] |= byte(r.Intn(256)) & (0xff >> uint((t-1)%8+1))
				}
			case 4:
				if len(a) > 0 {
					p := r.Intn(len(a))
					a[p] ^= 1 << uint(r.Intn(8))
				}
			case 5:
				if len(a) > 1 {
					a = a[:len(a)-1]
					a = append(a, bsString(r, r.Intn(3))...)
				}
			case 6:
				a = bsString(r, r.Intn(20))
			default:
				if len(a) > 0 {
					a[len(a)-1] = bsBytes[r.Intn(len(bsBytes))]
				}
			}
			addA(a)
		}
		g.Case("bsupto", J{"item": item(s, f, t), "as": as})
	}
}

// ---------------------------------------------------------------- C16 / C17

func execFDB(in In, em *Emitter) {
	keys := in.Strs("keys")
	o := J{}
	abn := guard(func() { o = J{"fd": nums32(sigbits.FirstDiffBits(keys))} })
	em.Emit("fdb", J{"in": in.m, "out": o, "abn": abn})
	em.Calls(1)
}

func execCntP(in In, em *Emitter) {
	keys := in.Strs("keys")
	qs := toList(in.get("queries"))
	o := J{}
	abn := guard(func() {
		sb := sigbits.New(keys)
		res := make([][]interface{}, len(qs))
		for j, x := range qs {
			q := toIs(x)
			m0, cnt := sb.CountPrefixes(int32(q[0]), int32(q[1]), int32(q[2]))
			res[j] = []interface{}{num(int64(m0)), nums32(cnt)}
		}
		o = J{"res": res}
	})
	em.Emit("cntp", J{"in": in.m, "out": o, "abn": abn})
	em.Calls(len(qs))
}

// patKeys builds the pattern key set of Trace_Strs!PatKey: key i is the 4-byte big-endian number
// (i/13)*stride + patT[i%13] (stride = 32768).
var patT = []int64{0, 1, 2, 4, 5, 64, 65, 1024, 1025, 4096, 8192, 8193, 16384}

func patKeys(n int, stride int64) []string {
	buf := make([]byte, 4*n)
	keys := make([]string, n)
	for i := 0; i < n; i++ {
		v := uint32(int64(i/13)*stride + patT[i%13])
		buf[4*i], buf[4*i+1], buf[4*i+2], buf[4*i+3] = byte(v>>24), byte(v>>16), byte(v>>8), byte(v)
	}
	all := string(buf)
	for i := range keys {
		keys[i] = all[4*i : 4*i+4]
	}
	return keys
}

func execFDBBig(in In, em *Emitter) {
	keys := patKeys(in.Int("n"), in.I("stride"))
	idxs := in.Is("idxs")
	o := J{}
	abn := guard(func() {
		fd := sigbits.FirstDiffBits(keys)
		out := make([]int64, len(idxs))
		for j, p := range idxs {
			out[j] = -7
			if int(p) < len(fd) {
				out[j] = num(int64(fd[p]))
			}
		}
		o = J{"n": len(fd), "fd": out}
	})
	em.Emit("fdbbig", J{"in": in.m, "out": o, "abn": abn})
	em.Calls(1)
}

func execCntPBig(in In, em *Emitter) {
	keys := patKeys(in.Int("n"), in.I("stride"))
	qs := toList(in.get("queries"))
	o := J{}
	abn := guard(func() {
		sb := sigbits.New(keys)
		res := make([][]interface{}, len(qs))
		for j, x := range qs {
			q := toIs(x)
			m0, cnt := sb.CountPrefixes(int32(q[0]), int32(q[1]), int32(q[2]))
			res[j] = []interface{}{num(int64(m0)), nums32(cnt)}
		}
		o = J{"res": res}
	})
	em.Emit("cntpbig", J{"in": in.m, "out": o, "abn": abn})
	em.Calls(len(qs))
}

func execShardBig(in In, em *Emitter) {
	keys := patKeys(in.Int("n"), in.I("stride"))
	maxSize := in.I32("maxSize")
	want := append(in.Is("at"), in.Is("more")...)
	o := J{}
	abn := guard(func() {
		l, b := sigbits.ShardByPrefix(keys, maxSize)
		o = J{"nb": len(b), "nl": len(l), "b1": -7, "blast": -7, "shards": [][]int64{}}
		if len(b) == 0 || len(l) != len(b)-1 {
			return
		}
		o["b1"], o["blast"] = num(int64(b[0])), num(int64(b[len(b)-1]))
		var shards [][]int64
		seen := map[int]bool{}
		for _, at := range want {
			// the shard holding key `at`: binary search over the boundaries (if they are not ascending the reported
			// shard simply does not hold the key, which the specification rejects)
			lo, hi := 0, len(b)-1
			for lo+1 < hi {
				mid := (lo + hi) / 2
				if int64(b[mid]) <= at {
					lo = mid
				} else {
					hi = mid
				}
			}
			if seen[lo] {
				continue
			}
			seen[lo] = true
			next := int64(-1)
			if lo+1 < len(l) {
				next = int64(l[lo+1])
			}
			shards = append(shards, []int64{int64(lo + 1), num(int64(b[lo])), num(int64(b[lo+1])), num(int64(l[lo])), num(next)})
		}
		o["shards"] = shards
	})
	em.Emit("shardbig", J{"in": in.m, "out": o, "abn": abn})
	em.Calls(1)
}

func execShard(in In, em *Emitter) {
	keys := in.Strs("keys")
	maxSize := in.I32("maxSize")
	o := J{}
	abn := guard(func() {
		l, b := sigbits.ShardByPrefix(keys, maxSize)
		o = J{"L": nums32(l), "B": nums32(b)}
	})
	em.Emit("shard", J{"in": in.m, "out": o, "abn": abn})
	em.Calls(1)
}

var keyTail = []byte{0x00, 0x01, 'a', 'b', 0x80, 0xff}

// keySet draws a sorted set of distinct keys sharing a prefix; unsorted=false keeps them strictly ascending.
func keySet(r *rand.Rand, nk int) []string {
	plen := []int{0, 0, 1, 3, 7, 8, 9, 15, 16, 17, 20, 23, 24, 25, 31, 32, 33, 40}[r.Intn(18)]
	prefix := make([]byte, plen)
	for i := range prefix {
		prefix[i] = keyTail[r.Intn(len(keyTail))]
	}
	set := map[string]bool{}
	alpha := keyTail
	if r.Intn(3) == 0 {
		alpha = []byte{'a', 'b', 'c'}
	}
	utf8 := r.Intn(6) == 0 // tails of well-formed multi-byte UTF-8 runes sharing their lead bytes
	runes := []string{"\u00e8", "\u00e9", "\u00ea", "\u00e0", "\u0100", "\u65e5", "\u65e6", "\u672c", "\U0001f600", "\U0001f601", "a"}
	if r.Intn(8) == 0 {
		alpha = nil // full byte alphabet
	}
	for tries := 0; len(set) < nk && tries < nk*20; tries++ {
		tl := r.Intn(5)
		k := append([]byte{}, prefix...)
		for i := 0; i < tl; i++ {
			if utf8 {
				k = append(k, runes[r.Intn(len(runes))]...)
			} else if alpha == nil {
				k = append(k, byte(r.Intn(256)))
			} else {
				k = append(k, alpha[r.Intn(len(alpha))])
			}
		}
		switch r.Intn(10) {
		case 0: // a single-bit difference at a chosen bit of bytes 7, 8, 9, 15, 16
			for len(k) < 18 {
				k = append(k, 'a')
			}
			by := []int{7, 8, 9, 15, 16}[r.Intn(5)]
			k[by] ^= 1 << uint(r.Intn(8))
		case 1: // key + NULs
			k = append(k, make([]byte, 1+r.Intn(3))...)
		case 2: // extension of an existing key (key = prefix of successor)
			for s := range set {
				k = append([]byte(s), keyTail[r.Intn(len(keyTail))])
				break
			}
		}
		set[string(k)] = true
	}
	if r.Intn(6) == 0 {
		set[""] = true // the empty key sorts first
	}
	if r.Intn(4) == 0 {
		set[string(prefix)] = true // a key equal to the common prefix of its successors
	}
	keys := make([]string, 0, len(set))
	for k := range set {
		keys = append(keys, k)
	}
	sort.Strings(keys)
	return keys
}

// groupedKeys builds a sorted set of 65..260 keys made of groups (of 1..128 keys, often exactly 63, 64, 65):
// the keys of a group share a prefix of 8..40 bytes and more, neighbouring groups differ early, in a byte that lies
// inside what the members of a group share.  Group boundaries therefore fall on and around multiples of 32 and 64
// keys (batch-wise or block-wise processing of adjacent pairs).
func groupedKeys(r *rand.Rand, total int) []string {
	base := bsString(r, r.Intn(4))
	filler := bsString(r, 8+r.Intn(33))
	k := 0
	if r.Intn(2) == 0 {
		k = r.Intn(len(filler)) // the distinguishing byte sits inside the filler
	}
	var keys []string
	gb := r.Intn(4)
	aligned := r.Intn(2) == 0
	for len(keys) < total && gb < 250 {
		size := []int{64, 63, 65, 32, 31, 33, 128, 1, 2, 16, 64, 64, 64}[r.Intn(13)]
		if aligned {
			size = []int{64, 64, 128, 32, 32, 64, 192}[r.Intn(7)] // group boundaries on multiples of 32 / 64 keys
		}
		gb += 1 + r.Intn(3)
		pre := string(base) + string(filler[:k]) + string([]byte{byte(gb)}) + string(filler[k:])
		tail := bsString(r, r.Intn(3))
		for i := 0; i < size; i++ {
			key := pre + string([]byte{byte(i >> 4), byte(i&15) << 4})
			if i%3 == 1 {
				key += string(tail)
			}
			keys = append(keys, key)
		}
	}
	return keys
}

func genC16(g *Gen) {
	r := g.R
	// key sets of 65,537 .. 600,000 keys given by a pattern (Trace_Strs!PatKey): FirstDiffBits at sampled pairs around
	// every multiple of 2^16 and 2^18, CountPrefixes calls in a row on one object with short ranges whose bounds differ
	// by multiples of 2^16 (indexes kept in 16 bits collide there)
	for c := 0; c < g.N(3, 24); c++ {
		n := []int{262145 + r.Intn(1000), 65537 + r.Intn(5000), 600000, 524289, 131073, 262144, 70000}[c%7]
		stride := int64(32768)
		idxs := []int64{0, 1, int64(n) - 2, int64(n) - 3}
		for k := int64(1); k<<16 < int64(n); k++ {
			for d := int64(-2); d <= 1; d++ {
				if p := k<<16 + d; p >= 0 && p < int64(n)-1 {
					idxs = append(idxs, p)
				}
			}
		}
		// where a split of the n keys (or of the n-1 pairs) into 2..8 and 16 equal parts has its joints
		var joints []int64
		for _, parts := range []int64{2, 3, 4, 5, 6, 7, 8, 16} {
			for k := int64(1); k < parts; k++ {
				for _, tot := range []int64{int64(n), int64(n) - 1} {
					for _, j := range []int64{k * tot / parts, (k*tot + parts - 1) / parts} {
						joints = append(joints, j)
						for d := int64(-2); d <= 1; d++ {
							if p := j + d; p >= 0 && p < int64(n)-1 {
								idxs = append(idxs, p)
							}
						}
					}
				}
			}
		}
		for k := 0; k < 40; k++ {
			idxs = append(idxs, r.Int63n(int64(n)-1))
		}
		g.Case("fdbbig", J{"n": n, "stride": stride, "idxs": idxs})
		var qs [][]int64
		for k := 0; k < 12; k++ { // short ranges across such joints
			j := joints[r.Intn(len(joints))]
			s0 := j - 1 - int64(r.Intn(4))
			e0 := j + 1 + int64(r.Intn(4))
			if s0 >= 0 && e0 <= int64(n) && e0-s0 >= 2 {
				qs = append(qs, []int64{s0, e0, int64(1 + r.Intn(3))})
			}
		}
		for k := 0; k < 14; k++ {
			s0 := int64(r.Intn(8))
			e0 := s0 + 2 + int64(r.Intn(6))
			m := int64(1 + r.Intn(3))
			qs = append(qs, []int64{s0, e0, m})
			// the same bounds plus multiples of 65536, with as many or fewer counters
			for _, sh := range [][2]int64{{1, 1}, {0, 1}, {1, 0}, {2, 2}, {3, 3}} {
				s1, e1 := s0+sh[0]<<16, e0+sh[1]<<16
				if s1 < e1-1 && e1-s1 <= 12 && e1 <= int64(n) {
					qs = append(qs, []int64{s1, e1, 1 + int64(r.Intn(int(m)))})
				}
			}
		}
		for k := 0; k < 10; k++ { // short ranges anywhere, some across multiples of 2^16
			s0 := r.Int63n(int64(n) - 12)
			if k%2 == 0 {
				s0 = int64(1+r.Intn(n>>16))<<16 - int64(1+r.Intn(5))
			}
			e0 := s0 + 2 + int64(r.Intn(9))
			if e0 > int64(n) { // (a range must end inside the key set)
				s0, e0 = int64(n)-(e0-s0), int64(n)
			}
			qs = append(qs, []int64{s0, e0, int64(1 + r.Intn(3))})
		}
		g.Case("cntpbig", J{"n": n, "stride": stride, "queries": qs})
	}
	for c := 0; c < g.N(10, 400); c++ {
		keys := groupedKeys(r, 65+r.Intn(196))
		g.Case("fdb", J{"keys": strsJ(keys)})
		if c%2 == 0 {
			n := len(keys)
			var qs [][]int64
			for k := 0; k < 10; k++ {
				s0, e0 := 32*r.Intn(n/32+1), 32*r.Intn(n/32+1)
				s0 += []int{0, 0, 0, 1, -1}[r.Intn(5)]
				e0 += []int{0, 0, 0, 1, -1}[r.Intn(5)]
				if s0 > e0 {
					s0, e0 = e0, s0
				}
				if s0 < 0 {
					s0 = 0
				}
				if e0 > n {
					e0 = n
				}
				if e0-s0 < 2 {
					continue
				}
				qs = append(qs, []int64{int64(s0), int64(e0), []int64{1, 2, 3}[r.Intn(3)]})
			}
			qs = append(qs, []int64{0, int64(n), 2})
			g.Case("cntp", J{"keys": strsJ(keys), "queries": qs})
		}
		// the same object asked, in a row, for ranges that END on a multiple of 32 / 64 and for ranges that reach one
		// key further (the pair at the block boundary is the one the two answers differ in), in both orders
		{
			n := int64(len(keys))
			var qs [][]int64
			for e := int64(32); e <= n; e += 32 {
				short := [][]int64{{e - 32, e, 2}, {max64(e-64, 0), e, 3}, {max64(e-33, 0), e, 1}}
				long := [][]int64{{max64(e-64, 0), min64(e+1, n), 2}, {e - 2, min64(e+1, n), 1}, {max64(e-32, 0), min64(e+32, n), 3}}
				if (c+int(e/32))%2 == 0 {
					short, long = long, short
				}
				for _, q := range append(short, long...) {
					if q[1]-q[0] >= 2 {
						qs = append(qs, q)
					}
				}
			}
			qs = append(qs, []int64{0, n, 2})
			g.Case("cntp", J{"keys": strsJ(keys), "queries": qs})
		}
	}
	// keys sharing a prefix of 65,536 bytes and more (first-difference bits beyond 2^19)
	for c := 0; c < g.N(1, 6); c++ {
		plen := []int{65536, 65537, 131072, 70000, 65535, 65536 + 8}[c%6]
		prefix := make([]byte, plen)
		for i := range prefix {
			prefix[i] = "ab"[(i/5)%2]
		}
		p := string(prefix)
		g.Case("fdb", J{"keys": strsJ([]string{p, p + "a", p + "a\x00", p + "b"})})
	}
	for c := 0; c < g.N(1200, 50000); c++ {
		keys := keySet(r, 2+r.Intn(15))
		if r.Intn(5) == 0 { // FirstDiffBits does not need sorted keys
			r.Shuffle(len(keys), func(i, j int) { keys[i], keys[j] = keys[j], keys[i] })
		}
		g.Case("fdb", J{"keys": strsJ(keys)})
	}
	for c := 0; c < g.N(800, 50000); c++ {
		keys := keySet(r, 2+r.Intn(15))
		if len(keys) < 2 {
			continue
		}
		var qs [][]int64
		ms := []int64{1, 2, 3, 8, 9, 17, 1, 2, 3, 5, 9, 12, 64}
		if len(keys) <= 6 {
			for s := 0; s < len(keys); s++ {
				for e := s + 2; e <= len(keys); e++ {
					qs = append(qs, []int64{int64(s), int64(e), ms[r.Intn(len(ms))]})
				}
			}
		}
		for k := 0; k < 12; k++ {
			s := r.Intn(len(keys) - 1)
			e := s + 2 + r.Intn(len(keys)-s-1)
			qs = append(qs, []int64{int64(s), int64(e), ms[r.Intn(len(ms))]})
		}
		qs = append(qs, []int64{0, int64(len(keys)), 1})
		if r.Intn(3) == 0 {
			qs = append(qs, []int64{0, int64(len(keys)), 64})
		}
		g.Case("cntp", J{"keys": strsJ(keys), "queries": qs})
	}
	// many counters (129..300: more than any fixed scratch array) asked of ONE object several times in a row, more,
	// fewer, more; keys whose first differences lie 0..40 bytes apart (counters reach far beyond the shallowest one)
	for c := 0; c < g.N(30, 800); c++ {
		deep := bsString(r, 17+r.Intn(24))
		keys := []string{string(deep) + "a", string(deep) + "b", string(bsString(r, 2))}
		for i, n := 0, 3+r.Intn(6); i < n; i++ {
			switch r.Intn(3) {
			case 0:
				keys = append(keys, string(bsString(r, 1+r.Intn(3))))
			case 1:
				keys = append(keys, string(deep)+string(bsString(r, 1+r.Intn(3))))
			default:
				keys = append(keys, string(deep[:1+r.Intn(len(deep))])+string(bsString(r, 1+r.Intn(2))))
			}
		}
		set := map[string]bool{}
		var uniq []string
		for _, k := range keys {
			if !set[k] {
				set[k] = true
				uniq = append(uniq, k)
			}
		}
		sort.Strings(uniq)
		if len(uniq) < 3 {
			continue
		}
		var qs [][]int64
		// first the whole set with many counters, then with fewer, then every pair and the whole set with many again
		n := int64(len(uniq))
		qs = append(qs, []int64{0, n, 300}, []int64{0, n, 130})
		for i := int64(0); i+2 <= n; i++ {
			qs = append(qs, []int64{i, i + 2, 300})
		}
		qs = append(qs, []int64{0, n, 257})
		for k := 0; k < 5; k++ {
			s0 := r.Intn(len(uniq) - 1)
			e0 := s0 + 2 + r.Intn(len(uniq)-s0-1)
			m := []int64{300, 130, 257, 129, 131, 128, 200, 64, 2}[r.Intn(9)]
			if k%2 == 1 {
				m = []int64{130, 131, 129, 140}[r.Intn(4)] // fewer, but still beyond 129
			}
			qs = append(qs, []int64{int64(s0), int64(e0), m})
		}
		g.Case("cntp", J{"keys": strsJ(uniq), "queries": qs})
	}
	// larger key sets (17..70 keys): sub-ranges starting and ending on and around multiples of 8, 16, 32
	// (block-wise summaries of the first-difference bits), few counters
	for c := 0; c < g.N(48, 4000); c++ {
		keys := keySet(r, 17+r.Intn(54))
		n := len(keys)
		if n < 17 {
			continue
		}
		var qs [][]int64
		bnds := []int{0, 1, 7, 8, 9, 15, 16, 17, 23, 24, 31, 32, 33, 47, 48, 49, 63, 64, n - 1, n}
		for k := 0; k < 18; k++ {
			s0, e0 := bnds[r.Intn(len(bnds))], bnds[r.Intn(len(bnds))]
			if r.Intn(4) == 0 {
				s0, e0 = r.Intn(n), r.Intn(n+1)
			}
			if s0 > e0 {
				s0, e0 = e0, s0
			}
			if e0 > n {
				e0 = n
			}
			if e0-s0 < 2 {
				continue
			}
			qs = append(qs, []int64{int64(s0), int64(e0), []int64{1, 2, 3}[r.Intn(3)]})
		}
		if len(qs) == 0 {
			qs = append(qs, []int64{0, int64(n), 2})
		}
		g.Case("cntp", J{"keys": strsJ(keys), "queries": qs})
	}
}

func genC17(g *Gen) {
	r := g.R
	// pattern key sets (Trace_Strs!PatKey) of 65,537 .. 600,000 keys: the shards holding the keys around every
	// multiple of 2^16 and 2^18, the first and the last key and a seeded sample are judged
	for c := 0; c < g.N(4, 30); c++ {
		n := []int{262145 + r.Intn(2000), 65537 + r.Intn(5000), 600000, 524289 + r.Intn(100), 131073, 262144, 70000}[c%7]
		maxSize := []int{1000, 13, 100, 70000, 5000, 3, 300000}[r.Intn(7)]
		at := []int64{0, int64(n) - 1}
		for k := int64(1); k<<16 < int64(n); k++ {
			at = append(at, k<<16-1, k<<16)
		}
		var more []int64
		for k := 0; k < 40; k++ {
			more = append(more, r.Int63n(int64(n)))
		}
		g.Case("shardbig", J{"n": n, "stride": 32768, "maxSize": maxSize, "at": at, "more": more})
	}
	for c := 0; c < g.N(1500, 60000); c++ {
		keys := keySet(r, 1+r.Intn(20))
		if len(keys) == 0 {
			continue
		}
		n := len(keys)
		for _, ms := range []int{1, 2, 3, n - 1, n, n + 1} {
			if ms >= 1 && (r.Intn(2) == 0 || n < 6) {
				g.Case("shard", J{"keys": strsJ(keys), "maxSize": ms})
			}
		}
		if c%4 == 0 { // "no limit": sizes at and right below the largest int32 (n + maxSize exceeds it)
			const maxI32 = 1<<31 - 1
			ms := []int{maxI32, maxI32 - 1, maxI32 - n, maxI32 - n + 1, maxI32 - n/2, maxI32 - 2*n, 1 << 30, 1<<31 - 64}[r.Intn(8)]
			g.Case("shard", J{"keys": strsJ(keys), "maxSize": ms})
		}
	}
	// a key P (1..15 bytes) followed by 8..20 keys that all continue it with a NUL byte (P\x00, P\x00\x00, P\x00a,
	// P\x00\x01\x00 ...), alone and between other keys: the common prefix of such a shard is P itself, and P padded
	// with zero bytes looks the same as its continuations to word-wise comparisons
	for c := 0; c < g.N(60, 2000); c++ {
		p := string(bsString(r, 1+r.Intn(15)))
		set := map[string]bool{p: true}
		for i, n := 0, 8+r.Intn(13); i < n; i++ {
			k := p + "\x00"
			for j := r.Intn(4); j > 0; j-- {
				k += string([]byte{[]byte{0, 0, 1, 'a', 0xff}[r.Intn(5)]})
			}
			set[k] = true
		}
		if c%3 == 0 { // other keys before and after
			set[string(bsString(r, 1))] = true
			set[p[:len(p)-1]+string([]byte{p[len(p)-1] + 1})] = true
		}
		var keys []string
		for k := range set {
			keys = append(keys, k)
		}
		sort.Strings(keys)
		n := len(keys)
		for _, ms := range []int{n, n + 1, 100, n - 1, 9, 3} {
			if ms >= 1 && r.Intn(2) == 0 {
				g.Case("shard", J{"keys": strsJ(keys), "maxSize": ms})
			}
		}
		g.Case("shard", J{"keys": strsJ(keys), "maxSize": n})
	}
	// all keys differing in the first byte; single key
	for c := 0; c < g.N(40, 1000); c++ {
		var keys []string
		for b := 0; b < 256; b += 1 + r.Intn(40) {
			keys = append(keys, string(append([]byte{byte(b)}, bsString(r, r.Intn(3))...)))
		}
		g.Case("shard", J{"keys": strsJ(keys), "maxSize": 1 + r.Intn(len(keys)+1)})
		g.Case("shard", J{"keys": strsJ(keys[:1]), "maxSize": 1 + r.Intn(3)})
	}
	// full fan-out: a key equal to the common prefix followed by every one of the 256 next bytes (257 sub-ranges),
	// also without the prefix key, with a few children extended, under a longer parent
	for c := 0; c < g.N(6, 60); c++ {
		prefix := string(bsString(r, []int{0, 1, 3, 8, 9}[r.Intn(5)]))
		var keys []string
		if c%3 != 1 {
			keys = append(keys, prefix)
		}
		for b := 0; b < 256; b++ {
			if c%3 == 2 && r.Intn(40) == 0 {
				continue // a few missing
			}
			k := prefix + string([]byte{byte(b)})
			keys = append(keys, k)
			if r.Intn(30) == 0 {
				keys = append(keys, k+"x", k+"y")
			}
		}
		if prefix == "" && c%3 != 1 {
			// the empty key first
		}
		g.Case("shard", J{"keys": strsJ(keys), "maxSize": []int{1, 2, 3, 100, 255, 256, 257, 300}[(c/3+c)%8]})
	}
	// a 257-way fan-out (prefix key + all 256 next bytes) at depth 1 or 2, behind siblings that recurse deeper,
	// with some of its children larger than maxSize themselves
	for c := 0; c < g.N(8, 200); c++ {
		var keys []string
		top := string(bsString(r, r.Intn(2))) // common prefix of everything
		nsib := 1 + r.Intn(3)
		for sib := 0; sib < nsib; sib++ { // earlier siblings: small subtrees that recurse a level or two further
			p := top + string([]byte{byte(10 + sib)})
			keys = append(keys, p, p+"a", p+"aa", p+"aab", p+"ab", p+"b")
			if r.Intn(2) == 0 {
				keys = append(keys, p+"ba", p+"bab", p+"babb")
			}
		}
		fan := top + string([]byte{byte(10 + nsib)})
		if c%2 == 1 {
			fan += "q" // one level deeper
			keys = append(keys, top+string([]byte{byte(10 + nsib)})+"a")
		}
		keys = append(keys, fan)
		for b := 0; b < 256; b++ {
			k := fan + string([]byte{byte(b)})
			keys = append(keys, k)
			if r.Intn(12) == 0 || b == 5 { // a child larger than maxSize
				keys = append(keys, k+"x", k+"xy", k+"y", k+"z")
			}
		}
		keys = append(keys, top+"\xfe\xfe")
		set := map[string]bool{}
		var uniq []string
		for _, k := range keys {
			if !set[k] {
				set[k] = true
				uniq = append(uniq, k)
			}
		}
		sort.Strings(uniq)
		g.Case("shard", J{"keys": strsJ(uniq), "maxSize": []int{1, 2, 3, 4}[r.Intn(4)]})
	}
	// keys sharing a prefix of 65,536 bytes and more (16-bit prefix lengths wrap there)
	for c := 0; c < g.N(2, 12); c++ {
		plen := []int{65536, 65537, 65535, 70000, 131072, 65536 + 255}[c%6]
		prefix := make([]byte, plen)
		for i := range prefix {
			prefix[i] = "ab"[(i/7)%2]
		}
		p := string(prefix)
		keys := []string{p[:10], p[:10] + "z", p, p + "a", p + "ab", p + "b", p + "ba", "c"}
		sort.Strings(keys)
		g.Case("shard", J{"keys": strsJ(keys), "maxSize": 1 + c%3})
	}
	// many keys over a 3-letter alphabet: deep recursion
	for c := 0; c < g.N(6, 120); c++ {
		set := map[string]bool{}
		n := 100 + r.Intn(g.N(300, 1900))
		for len(set) < n {
			k := make([]byte, 1+r.Intn(9))
			for i := range k {
				k[i] = "abc"[r.Intn(3)]
			}
			set[string(k)] = true
		}
		keys := make([]string, 0, n)
		for k := range set {
			keys = append(keys, k)
		}
		sort.Strings(keys)
		g.Case("shard", J{"keys": strsJ(keys), "maxSize": []int{1, 2, 5, 17, 64, 200}[r.Intn(6)]})
	}
}
