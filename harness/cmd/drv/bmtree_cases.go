package main

// Package bmtree: C03 (PathToIndex/Loose), C04 (AllPaths/Decode), C05 (IndexToPath), C10 (path words),
// C11 (FromStr32/PathOf/PathsOf).

import (
	"bytes"
	"math/bits"
	"math/rand"

	"github.com/openacid/low/bitmap"
	"github.com/openacid/low/bmtree"
)

func init() {
	exec := map[string]func(in In, em *Emitter){
		"p2i": execP2I, "allpaths": execAllPaths, "decode": execDecode, "encdec": execEncDec,
		"i2p": execI2P, "i2pscan": execI2PScan, "pathw": execPathW, "fromstr32": execFromStr32, "pathsof": execPathsOf,
	}
	props["C03"] = &Prop{Gen: genC03, Exec: exec, Trivial: func(k string, in In) bool { return in.I("T") == 1 }}
	props["C04"] = &Prop{Gen: genC04, Exec: exec, Trivial: func(k string, in In) bool { return in.I("T") == 1 }}
	props["C05"] = &Prop{Gen: genC05, Exec: exec, Trivial: func(k string, in In) bool { return in.I("h") == 0 }}
	props["C10"] = &Prop{Gen: genC10, Exec: exec, Trivial: func(k string, in In) bool { return in.I("h") == 0 }}
	props["C11"] = &Prop{Gen: genC11, Exec: exec, Trivial: func(k string, in In) bool {
		return k == "fromstr32" && (len(in.Bs("s")) == 0 || in.I("w") == 0)
	}}
}

func heightOf(t int64) int { return 63 - bits.LeadingZeros64(uint64(t)) }

// hl projects a path word of a tree of height <= 30 as its two 32-bit halves.
func hl(p uint64) []int64 { return []int64{num(int64(p >> 32)), num(int64(p & 0xffffffff))} }

func hls(ps []uint64) [][]int64 {
	r := make([][]int64, len(ps))
	for i, p := range ps {
		r[i] = hl(p)
	}
	return r
}

// mkPath builds the path word of node (l, v) in a tree of height h through the library's own NewPath.
func mkPath(h, l int, v int64) uint64 {
	return bmtree.NewPath(uint64(v)<<uint(h-l), int32(l), int32(h))
}

// ---------------------------------------------------------------- C03

func execP2I(in In, em *Emitter) {
	t := in.I("T")
	h := heightOf(t)
	nodes := toList(in.get("nodes"))
	loose := make([][]int64, len(nodes))
	strict := make([]int64, len(nodes))
	abn := guard(func() {
		for j, x := range nodes {
			nd := toIs(x)
			p := mkPath(h, int(nd[0]), nd[1])
			idx, has := bmtree.PathToIndexLoose(int32(t), p)
			loose[j] = []int64{num(int64(idx)), num(int64(has))}
			if t>>uint(nd[0])&1 == 1 {
				strict[j] = num(int64(bmtree.PathToIndex(int32(t), p)))
			} else {
				strict[j] = -7 // not called: PathToIndex requires a stored level
			}
		}
	})
	o := J{"loose": loose, "strict": strict}
	if abn != "" {
		o = J{}
	}
	em.Emit("p2i", J{"in": in.m, "out": o, "abn": abn})
	em.Calls(2 * len(nodes))
}

func randNode(r *rand.Rand, h int) []int64 {
	l := r.Intn(h + 1)
	var v int64
	switch r.Intn(6) {
	case 0:
		v = 0
	case 1:
		v = 1<<uint(l) - 1
	case 2:
		if l > 0 {
			k := uint(r.Intn(l))
			v = 1<<k + int64(r.Intn(3)) - 1
		}
	default:
		if l > 0 {
			v = r.Int63n(1 << uint(l))
		}
	}
	if v < 0 {
		v = 0
	}
	if v >= 1<<uint(l) {
		v = 1<<uint(l) - 1
	}
	return []int64{int64(l), v}
}

func genC03(g *Gen) {
	r := g.R
	// all masks of height <= 8 (thorough: <= 10) with all nodes, one event per mask
	maxH := g.N(7, 10)
	for t := int64(1); t < 1<<uint(maxH+1); t++ {
		if g.Quick() && t >= 256 && t%3 != g.Seed%3 { // quick: all masks up to height 7, a third of height 8... none beyond
			continue
		}
		h := heightOf(t)
		if !g.Mine() {
			g.Case("p2i", nil)
			continue
		}
		var nodes [][]int64
		for l := 0; l <= h; l++ {
			for v := int64(0); v < 1<<uint(l); v++ {
				nodes = append(nodes, []int64{int64(l), v})
			}
		}
		g.Case("p2i", J{"T": t, "nodes": nodes})
	}
	// heights up to 30: full, leaf-only, single missing / single present level, random partial masks
	for h := 1; h <= 30; h++ {
		masks := []int64{1<<uint(h+1) - 1, 1 << uint(h)}
		for c := 0; c < g.N(3, 40); c++ {
			top := int64(1) << uint(h)
			switch r.Intn(4) {
			case 0:
				masks = append(masks, (top<<1-1)&^(1<<uint(r.Intn(h)))) // one level missing
			case 1:
				masks = append(masks, top|1<<uint(r.Intn(h))) // leaf + one level
			case 2:
				masks = append(masks, top|r.Int63n(top)&r.Int63n(top)) // sparse
			default:
				masks = append(masks, top|r.Int63n(top))
			}
		}
		for _, t := range masks {
			var nodes [][]int64
			for l := 0; l <= h; l++ { // root, all-zero and all-one paths of every length
				nodes = append(nodes, []int64{int64(l), 0}, []int64{int64(l), 1<<uint(l) - 1})
			}
			for c := 0; c < 60; c++ {
				nodes = append(nodes, randNode(r, h))
			}
			g.Case("p2i", J{"T": t, "nodes": nodes})
		}
	}
	// masks whose stored levels follow a rule, with paths of regular shape
	for _, h := range structuredHeights(g) {
		for _, t := range structuredMasks(r, h) {
			g.Case("p2i", J{"T": t, "nodes": structuredNodes(r, h)})
		}
	}
}

// structuredMasks: level masks of height h whose stored levels follow a RULE (a closed form or a shortcut in the
// index computation is keyed on such shapes): every p-th level at every phase, all levels from k down to the
// leaves, the levels down to k plus the leaves, one block of adjacent levels plus the leaves.
func structuredMasks(r *rand.Rand, h int) []int64 {
	top := int64(1) << uint(h)
	seen := map[int64]bool{}
	var out []int64
	add := func(t int64) {
		t |= top
		if !seen[t] {
			seen[t] = true
			out = append(out, t)
		}
	}
	for p := 2; p <= 8; p++ {
		for ph := 0; ph < p; ph++ {
			var t int64
			for l := ph; l <= h; l += p {
				t |= 1 << uint(l)
			}
			add(t)
			// counted from the leaves
			t = 0
			for l := h - ph; l >= 0; l -= p {
				t |= 1 << uint(l)
			}
			add(t)
		}
	}
	for k := 0; k < h; k++ {
		add(top<<1 - 1<<uint(k)) // levels k..h
		add(1<<uint(k+1) - 1)    // levels 0..k and the leaves
		w := 1 + r.Intn(3)       // a block of w levels starting at k, and the leaves
		add((1<<uint(w) - 1) << uint(k) & (top - 1))
	}
	return out
}

// structuredNodes: paths of every length made of all ones, all zeros, alternating bits, ones then zeros, zeros
// then ones, plus dense and sparse random ones.
func structuredNodes(r *rand.Rand, h int) [][]int64 {
	var nodes [][]int64
	for l := 0; l <= h; l++ {
		all := int64(1)<<uint(l) - 1
		alt := int64(0x5555555555555555) & all
		nodes = append(nodes, []int64{int64(l), 0}, []int64{int64(l), all}, []int64{int64(l), alt}, []int64{int64(l), all &^ alt})
		if l >= 2 {
			k := uint(1 + r.Intn(l-1))
			nodes = append(nodes, []int64{int64(l), all >> k}, []int64{int64(l), all &^ (all >> k)}, []int64{int64(l), all &^ 1}, []int64{int64(l), all &^ 2})
		}
	}
	for c := 0; c < 30; c++ {
		nd := randNode(r, h)
		all := int64(1)<<uint(nd[0]) - 1
		switch c % 3 {
		case 0:
			nd[1] |= r.Int63() & all
		case 1:
			nd[1] &= r.Int63()
		}
		nodes = append(nodes, nd)
	}
	return nodes
}

// structuredHeights: the heights the structured masks are built for (quick: the tallest, three multiples of 4 and
// one that changes with the seed).
func structuredHeights(g *Gen) []int {
	if g.Quick() {
		return []int{30, 28, 24, 20, 9 + int(g.Seed%10)}
	}
	var hs []int
	for h := 9; h <= 30; h++ {
		hs = append(hs, h)
	}
	return hs
}

// ---------------------------------------------------------------- C04

func execAllPaths(in In, em *Emitter) {
	t := in.I("T")
	from, to := in.U64("from"), in.U64("to")
	var ps []uint64
	abn := guard(func() {
		ps = bmtree.AllPaths(int32(t), from, to)
		// the result is looked at only after the same call was made again and ITS result overwritten: a returned
		// slice belongs to the caller
		again := bmtree.AllPaths(int32(t), from, to)
		for i := range again {
			again[i] = ^uint64(0)
		}
	})
	o := J{"paths": hls(ps)}
	if abn != "" {
		o = J{}
	}
	em.Emit("allpaths", J{"in": in.m, "out": o, "abn": abn})
	em.Calls(1)
}

// decodeAgain makes a further Decode call on a different bitmap (the same one without its lowest 1-bit) between
// a Decode call and the projection of its result: a returned slice belongs to the caller and must not change
// when the library is used again.
func decodeAgain(t int32, bm []uint64) {
	other := append([]uint64{}, bm...)
	for i, w := range other {
		if w != 0 {
			other[i] = w & (w - 1)
			break
		}
	}
	bmtree.Decode(t, other)
}

func execDecode(in In, em *Emitter) {
	t := in.I("T")
	bm := in.BM("bm")
	var ps []uint64
	abn := guard(func() {
		ps = bmtree.Decode(int32(t), bm)
		decodeAgain(int32(t), bm)
	})
	o := J{"paths": hls(ps)}
	if abn != "" {
		o = J{}
	}
	em.Emit("decode", J{"in": in.m, "out": o, "abn": abn})
	em.Calls(1)
}

func execEncDec(in In, em *Emitter) {
	t := in.I("T")
	h := heightOf(t)
	var ps []uint64
	abn := guard(func() {
		bm := make([]uint64, (t+63)/64)
		for _, x := range toList(in.get("nodes")) {
			nd := toIs(x)
			idx := bmtree.PathToIndex(int32(t), mkPath(h, int(nd[0]), nd[1]))
			bm[idx>>6] |= 1 << uint(idx&63)
		}
		ps = bmtree.Decode(int32(t), bm)
		decodeAgain(int32(t), bm)
	})
	o := J{"paths": hls(ps)}
	if abn != "" {
		o = J{}
	}
	em.Emit("encdec", J{"in": in.m, "out": o, "abn": abn})
	em.Calls(1 + len(toList(in.get("nodes"))))
}

func randMask(r *rand.Rand, h int) int64 {
	top := int64(1) << uint(h)
	if h >= 3 && r.Intn(4) == 0 { // stored levels that follow a rule
		ms := structuredMasks(r, h)
		return ms[r.Intn(len(ms))]
	}
	switch r.Intn(5) {
	case 0:
		return top<<1 - 1
	case 1:
		return top
	case 2:
		if h > 0 {
			return (top<<1 - 1) &^ (1 << uint(r.Intn(h)))
		}
		return top
	case 3:
		if h > 0 {
			return top | r.Int63n(top)&r.Int63n(top)
		}
		return top
	}
	if h > 0 {
		return top | r.Int63n(top)
	}
	return top
}

func genC04(g *Gen) {
	r := g.R
	{ // bitmaps far longer than the tree needs: 2^15 .. 2^16 + 1 words, thorough 2^25 .. 2^26 + 5 (what lies beyond bitmapSize is ignored)
		sizes := []int64{1 << 26, 1<<26 + 5, 1 << 25, 1<<25 + 1, 1<<26 - 1, 1 << 15, 1<<15 + 1, 1<<16 - 1, 1 << 16, 1<<16 + 1}
		if g.Quick() {
			sizes = sizes[5:]
		}
		for i, nw := range sizes {
			t := []int64{15, 0x2f, 1<<11 - 1, 0x85, 7}[i%5]
			ones := map[int64]bool{0: true, t - 1: true, t: true, t + 70: true, 1 << 30: true, nw*64 - 1: true}
			for k := 0; k < 6; k++ {
				ones[r.Int63n(t)] = true
			}
			var ol []int64
			for p := range ones {
				if p >= 0 && p < nw*64 && p < 1<<31 {
					ol = append(ol, p)
				}
			}
			sortI64(ol)
			g.Case("decode", J{"T": t, "bm": J{"nw": nw, "ones": ol}})
		}
	}
	// small trees: every mask of height <= 5 (thorough 6) x structured from/to around every path word
	maxH := g.N(4, 6)
	for t := int64(1); t < 1<<uint(maxH+1); t++ {
		h := heightOf(t)
		var words []uint64
		for l := 0; l <= h; l++ {
			for v := int64(0); v < 1<<uint(l); v++ {
				words = append(words, mkPathRaw(h, l, v))
			}
		}
		cands := []uint64{0, 1, 1 << 63, ^uint64(0), 1 << 32, 1<<32 - 1, uint64(1) << uint(32+h), uint64(1)<<uint(32+h) - 1}
		for _, w := range words {
			cands = append(cands, w, w+1, w-1, w+1<<32, w-1<<32, w|1, w&^1, w^2)
		}
		n := g.N(14, 60)
		if t < 16 {
			n = g.N(40, 200)
		}
		for c := 0; c < n; c++ {
			from, to := cands[r.Intn(len(cands))], cands[r.Intn(len(cands))]
			if r.Intn(6) != 0 && from > to {
				from, to = to, from
			}
			g.Case("allpaths", J{"T": t, "from": limbs(from), "to": limbs(to)})
		}
		g.Case("allpaths", J{"T": t, "from": limbs(0), "to": limbs(1 << 63)})
		g.Case("allpaths", J{"T": t, "from": limbs(0), "to": limbs(^uint64(0))})
	}
	// tall trees, narrow windows (<= 512 full-length values) at 0, at the top, around 2^k, random; ends on and off paths
	for c := 0; c < g.N(900, 40000); c++ {
		h := 6 + r.Intn(25)
		t := randMask(r, h)
		width := uint64(r.Intn(300))
		full := uint64(1) << uint(h)
		var lo uint64
		switch r.Intn(5) {
		case 0:
			lo = 0
		case 1:
			if full > width {
				lo = full - width - uint64(r.Intn(3))
			}
		case 2:
			k := uint64(1) << uint(r.Intn(h+1))
			if k > width/2 {
				lo = k - width/2
			}
		default:
			lo = uint64(r.Int63n(int64(full)))
		}
		hi := lo + width
		mk := func(v uint64) uint64 { // a from/to word: upper half v, lower half a path mask, a broken mask or noise
			var low uint64
			switch r.Intn(6) {
			case 0:
				low = 0
			case 1:
				low = 0xffffffff
			case 2:
				l := r.Intn(h + 1)
				low = (1<<uint(l) - 1) << uint(h-l) // a real mask
			case 3:
				l := r.Intn(h + 1)
				low = (1<<uint(l)-1)<<uint(h-l) + uint64(r.Intn(3)) - 1 // mask +- 1
			case 4:
				low = uint64(r.Uint32()) & (1<<uint(h) - 1) // not contiguous
			default:
				low = uint64(r.Uint32())
			}
			return v<<32 | low&0xffffffff
		}
		g.Case("allpaths", J{"T": t, "from": limbs(mk(lo)), "to": limbs(mk(hi))})
	}
	// Decode: masks of height <= 10 (thorough 12), bitmaps all-zero, all-one, single bits, random; shorter, exact, longer, garbage beyond T
	for c := 0; c < g.N(500, 20000); c++ {
		h := r.Intn(g.N(10, 12) + 1)
		t := randMask(r, h)
		need := int((t + 63) / 64)
		nw := need
		switch r.Intn(6) {
		case 0:
			nw = 0
		case 1:
			nw = r.Intn(need + 1)
		case 2:
			nw = need + 1 + r.Intn(2)
		case 3:
			if need > 0 {
				nw = need - 1
			}
		}
		bm := make([]uint64, nw)
		switch r.Intn(5) {
		case 0:
		case 1:
			for i := range bm {
				bm[i] = ^uint64(0)
			}
		case 2:
			if nw > 0 {
				p := r.Intn(nw * 64)
				bm[p>>6] |= 1 << uint(p&63)
				bm[nw-1] |= 1 << 63
			}
		default:
			copy(bm, patWords(r, nw, 0.2))
		}
		if h > 9 {
			// keep the output small on big trees: thin the bitmap
			for i := range bm {
				bm[i] &= r.Uint64() & r.Uint64()
			}
			if nw > 0 && r.Intn(2) == 0 {
				bm[nw-1] |= 1 << 63
			}
		}
		g.Case("decode", J{"T": t, "bm": bmJ(bm)})
	}
	// encode/decode round trip on trees up to height 14
	for c := 0; c < g.N(400, 15000); c++ {
		h := r.Intn(15)
		t := randMask(r, h)
		var nodes [][]int64
		seen := map[[2]int64]bool{}
		for n := r.Intn(40); n > 0; n-- {
			nd := randNode(r, h)
			if t>>uint(nd[0])&1 == 0 || seen[[2]int64{nd[0], nd[1]}] {
				continue
			}
			seen[[2]int64{nd[0], nd[1]}] = true
			nodes = append(nodes, nd)
		}
		if t>>uint(h)&1 == 1 && r.Intn(2) == 0 { // the last leaf
			nd := []int64{int64(h), 1<<uint(h) - 1}
			if !seen[[2]int64{nd[0], nd[1]}] {
				nodes = append(nodes, nd)
			}
		}
		if nodes == nil {
			nodes = [][]int64{}
		}
		g.Case("encdec", J{"T": t, "nodes": nodes})
	}
}

// mkPathRaw builds a path word arithmetically (used only to place from/to bounds, never compared).
func mkPathRaw(h, l int, v int64) uint64 {
	return uint64(v)<<uint(h-l)<<32 | (1<<uint(l)-1)<<uint(h-l)
}

// ---------------------------------------------------------------- C05

func execI2P(in In, em *Emitter) {
	h := in.I32("h")
	xs := in.I32s("xs")
	paths := make([][]int64, len(xs))
	back := make([]int64, len(xs))
	full := int32(uint32(1)<<uint(h+1) - 1)
	abn := guard(func() {
		for j, x := range xs {
			p := bmtree.IndexToPath(h, x)
			paths[j] = hl(p)
			back[j] = num(int64(bmtree.PathToIndex(full, p)))
		}
	})
	o := J{"paths": paths, "back": back}
	if abn != "" {
		o = J{}
	}
	em.Emit("i2p", J{"in": in.m, "out": o, "abn": abn})
	em.Calls(2 * len(xs))
}

// execI2PScan walks EVERY index of [lo, hi) of the full tree of height h and evaluates the property's own
// round trip PathToIndex(full, IndexToPath(h, x)) == x plus the well-formedness of the path word. The scan
// decides nothing: it is an input selector. Every disagreeing index (up to 40) and a few agreeing ones are
// put into an ordinary "i2p" event, which TLC judges against the pre-order descent.
func execI2PScan(in In, em *Emitter) {
	h := in.I32("h")
	lo, hi := in.I("lo"), in.I("hi")
	full := int32(uint32(1)<<uint(h+1) - 1)
	var sel []int64
	bad := 0
	abn := guard(func() {
		step := (hi-lo)/7 + 1
		for x := lo; x < hi; x++ {
			p := bmtree.IndexToPath(h, int32(x))
			mask := uint32(p)
			bitsHalf := uint32(p >> 32)
			l := bits.OnesCount32(mask)
			wellFormed := uint64(mask) == (uint64(1)<<uint(l)-1)<<uint(int(h)-l) && bitsHalf&^mask == 0 && l <= int(h)
			if !wellFormed || int64(bmtree.PathToIndex(full, p)) != x {
				if bad < 40 {
					sel = append(sel, x)
				}
				bad++
			} else if (x-lo)%step == 0 {
				sel = append(sel, x)
			}
		}
	})
	em.Scanned(2 * (hi - lo))
	if abn != "" {
		em.Emit("i2p", J{"in": J{"h": h, "xs": []int64{}}, "out": J{}, "abn": abn})
		return
	}
	sortI64(sel)
	paths := make([][]int64, len(sel))
	back := make([]int64, len(sel))
	abn = guard(func() {
		for j, x := range sel {
			p := bmtree.IndexToPath(h, int32(x))
			paths[j] = hl(p)
			back[j] = num(int64(bmtree.PathToIndex(full, p)))
		}
	})
	o := J{"paths": paths, "back": back}
	if abn != "" {
		o = J{}
	}
	em.Emit("i2p", J{"in": J{"h": h, "xs": sel, "scanned": []int64{lo, hi}, "disagreeing": bad}, "out": o, "abn": abn})
	em.Calls(2 * len(sel))
}

func genC05(g *Gen) {
	r := g.R
	// complete scan of the index space as an input selector: heights <= 24 (quick), all heights 0..30 = 2^32-33 pairs (thorough)
	for h := 0; h <= g.N(24, 30); h++ {
		n := int64(1)<<uint(h+1) - 1
		chunk := int64(1 << 22)
		for lo := int64(0); lo < n; lo += chunk {
			hi := lo + chunk
			if hi > n {
				hi = n
			}
			g.Case("i2pscan", J{"h": h, "lo": lo, "hi": hi})
		}
	}
	// every index of every height <= 10 (thorough 13)
	for h := 0; h <= g.N(10, 13); h++ {
		n := int64(1)<<uint(h+1) - 1
		for lo := int64(0); lo < n; lo += 512 {
			var xs []int64
			for x := lo; x < n && x < lo+512; x++ {
				xs = append(xs, x)
			}
			g.Case("i2p", J{"h": h, "xs": xs})
		}
	}
	// taller trees: boundary indexes and random ones
	for h := 5; h <= 30; h++ {
		n := int64(1)<<uint(h+1) - 1
		set := map[int64]bool{}
		add := func(x int64) {
			if x >= 0 && x < n {
				set[x] = true
			}
		}
		for _, x := range []int64{0, 1, 2, 3, int64(h) - 1, int64(h), int64(h) + 1, int64(h) + 2, n - 1, n - 2, n - 3, n / 2, n/2 + 1, n/2 - 1} {
			add(x)
		}
		for k := uint(0); k <= uint(h)+1; k++ {
			for d := int64(-2); d <= 2; d++ {
				add(1<<k + d)
				add(1<<k + int64(h) + d)
				add(n - 1<<k + d)
			}
		}
		var xs []int64
		for x := range set {
			xs = append(xs, x)
		}
		sortI64(xs)
		g.Case("i2p", J{"h": h, "xs": xs})
		for c := 0; c < g.N(2, 40); c++ {
			var ys []int64
			for i := 0; i < 300; i++ {
				ys = append(ys, r.Int63n(n))
			}
			g.Case("i2p", J{"h": h, "xs": ys})
		}
	}
}

func sortI64(xs []int64) {
	for i := 1; i < len(xs); i++ {
		for j := i; j > 0 && xs[j] < xs[j-1]; j-- {
			xs[j], xs[j-1] = xs[j-1], xs[j]
		}
	}
}

// ---------------------------------------------------------------- C10

func bitsToSearch(h int, b []int64) uint64 {
	var sb uint64
	for i, x := range b {
		if x == 1 {
			sb |= 1 << uint(h-1-i)
		}
	}
	return sb
}

func execPathW(in In, em *Emitter) {
	h := in.Int("h")
	nl := toList(in.get("nodes"))
	var hs []int64
	if in.has("hs") {
		hs = toIs(in.get("hs"))
	}
	ws := make([]uint64, len(nl))
	o := J{}
	abn := guard(func() {
		var w, pb, pm [][]int64
		var ln, ht []int64
		var str [][]int64
		for j, x := range nl {
			b := toIs(x)
			h := h
			if hs != nil {
				h = int(hs[j])
			}
			p := bmtree.NewPath(bitsToSearch(h, b), int32(len(b)), int32(h))
			ws[j] = p
			w = append(w, wordOnes(p))
			ln = append(ln, num(int64(bmtree.PathLen(p))))
			ht = append(ht, num(int64(bmtree.PathHeight(p))))
			pb = append(pb, wordOnes(bmtree.PathBits(p)))
			pm = append(pm, wordOnes(bmtree.PathMask(p)))
			str = append(str, strJ(bmtree.PathStr(p)))
		}
		less := []bool{}
		for _, x := range toList(in.get("pairs")) {
			ab := toIs(x)
			less = append(less, ws[ab[0]] < ws[ab[1]])
		}
		o = J{"w": w, "len": ln, "height": ht, "pbits": pb, "pmask": pm, "str": str, "less": less}
	})
	if abn != "" {
		o = J{}
	}
	em.Emit("pathw", J{"in": in.m, "out": o, "abn": abn})
	em.Calls(6*len(nl) + len(toList(in.get("pairs"))))
}

func valBits(l int, v int64) []int64 {
	b := make([]int64, l)
	for i := 0; i < l; i++ {
		b[i] = v >> uint(l-1-i) & 1
	}
	return b
}

func genC10(g *Gen) {
	r := g.R
	// all nodes of small trees, in pre-order; adjacent pairs, (ancestor, descendant), (left, right) and random pairs
	for h := 0; h <= g.N(6, 8); h++ {
		var nodes [][]int64
		var walk func(l int, v int64)
		walk = func(l int, v int64) {
			nodes = append(nodes, valBits(l, v))
			if l < h {
				walk(l+1, 2*v)
				walk(l+1, 2*v+1)
			}
		}
		walk(0, 0)
		var pairs [][]int64
		for i := 0; i+1 < len(nodes); i++ {
			pairs = append(pairs, []int64{int64(i), int64(i + 1)}, []int64{int64(i + 1), int64(i)})
		}
		for c := 0; c < 400; c++ {
			pairs = append(pairs, []int64{int64(r.Intn(len(nodes))), int64(r.Intn(len(nodes)))})
		}
		g.Case("pathw", J{"h": h, "nodes": nodes, "pairs": pairs})
	}
	// all heights 0..32 x all lengths x boundary prefixes
	for h := 0; h <= 32; h++ {
		var nodes [][]int64
		for l := 0; l <= h; l++ {
			vs := []int64{0, 1, 1<<uint(l) - 1, 1 << uint(max(l-1, 0))}
			if l > 0 {
				vs = append(vs, r.Int63n(1<<uint(l)))
			}
			for _, v := range vs {
				if v < 1<<uint(l) {
					nodes = append(nodes, valBits(l, v))
				}
			}
		}
		var pairs [][]int64
		for c := 0; c < 300; c++ {
			pairs = append(pairs, []int64{int64(r.Intn(len(nodes))), int64(r.Intn(len(nodes)))})
		}
		g.Case("pathw", J{"h": h, "nodes": nodes, "pairs": pairs})
	}
	// prefixes with exactly one / two 1-bits or 0-bits at every pair of positions (long runs of equal bits between
	// them), full length and shorter, on the tallest trees
	for _, hl := range [][2]int{{32, 32}, {32, 25}, {31, 31}, {30, 19}, {24, 24}} {
		h, l := hl[0], hl[1]
		var nodes [][]int64
		for i := 0; i < l; i++ {
			for j := i; j < l; j++ {
				if g.Quick() && h != 32 && (i+j)%3 != int(g.Seed%3) {
					continue
				}
				b := make([]int64, l)
				b[i], b[j] = 1, 1
				nodes = append(nodes, b)
				c := make([]int64, l)
				for k := range c {
					c[k] = 1 - b[k]
				}
				nodes = append(nodes, c)
			}
		}
		g.Case("pathw", J{"h": h, "nodes": nodes, "pairs": [][]int64{}})
	}
	// calls in a row on trees of DIFFERENT heights whose path words share their searching bits, their length, their
	// prefix value or their mask: same prefix on several heights; the prefix shifted so that the left-aligned
	// searching bits stay the same; same height and prefix bits with different lengths
	for c := 0; c < g.N(60, 2000); c++ {
		var nodes [][]int64
		var hs []int64
		l := 1 + r.Intn(31)
		if c%2 == 0 {
			l = 16 + r.Intn(16)
		}
		lz := 1 + r.Intn(l) // leading zeros of the prefix
		v := r.Int63n(1<<uint(l-lz)+1) | 1<<uint(l-lz)>>1
		for k := 0; k <= lz && k <= 3; k++ { // prefix v<<k on height h-k: the same searching bits
			for _, h := range []int{32 - k, 31 - k, l + lz - k} {
				if h >= l && h <= 32 && v<<uint(k) < 1<<uint(l) {
					nodes = append(nodes, valBits(l, v<<uint(k)))
					hs = append(hs, int64(h))
				}
			}
		}
		for h := l; h <= 32; h += 1 + r.Intn(4) { // the same prefix on several heights, there and back
			nodes = append(nodes, valBits(l, v))
			hs = append(hs, int64(h))
		}
		for i := len(nodes) - 1; i >= 0; i -= 2 {
			nodes = append(nodes, nodes[i])
			hs = append(hs, hs[i])
		}
		g.Case("pathw", J{"h": 32, "hs": hs, "nodes": nodes, "pairs": [][]int64{}})
	}
	// random related pairs on tall trees
	for c := 0; c < g.N(150, 5000); c++ {
		h := 1 + r.Intn(32)
		var nodes [][]int64
		var pairs [][]int64
		for i := 0; i < 40; i++ {
			l := r.Intn(h + 1)
			a := make([]int64, l)
			for k := range a {
				a[k] = int64(r.Intn(2))
			}
			// a relative: prefix, extension, sibling branch
			b := append([]int64{}, a...)
			switch r.Intn(4) {
			case 0:
				b = b[:r.Intn(l+1)]
			case 1:
				for len(b) < h && r.Intn(3) != 0 {
					b = append(b, int64(r.Intn(2)))
				}
			case 2:
				if l > 0 {
					k := r.Intn(l)
					b[k] ^= 1
					b = b[:k+1+r.Intn(l-k)]
				}
			}
			nodes = append(nodes, a, b)
			pairs = append(pairs, []int64{int64(2 * i), int64(2*i + 1)}, []int64{int64(2*i + 1), int64(2 * i)})
		}
		g.Case("pathw", J{"h": h, "nodes": nodes, "pairs": pairs})
	}
}

func max(a, b int) int {
	if a > b {
		return a
	}
	return b
}

// ---------------------------------------------------------------- C11

func execFromStr32(in In, em *Emitter) {
	s := in.Str("s")
	from, w := in.I32("from"), in.I32("w")
	o := J{}
	abn := guard(func() {
		p := bmtree.PathOf(s, from, w)
		o = J{"k": 0, "val": []int64{}, "path": wordOnes(p), "pstr": strJ(bmtree.PathStr(p))}
		if in.Bool("direct") { // FromStr32(s, from, from+w) is expressible only when from+w fits int32
			k, val := bitmap.FromStr32(s, from, from+w)
			o["k"], o["val"] = num(int64(k)), wordOnes(val)
		}
	})
	em.Emit("fromstr32", J{"in": in.m, "out": o, "abn": abn})
	em.Calls(3)
}

func execPathsOf(in In, em *Emitter) {
	keys := in.Strs("keys")
	from, h := in.I32("from"), in.I32("h")
	dedup := in.Bool("dedup")
	o := J{}
	abn := guard(func() {
		ps := bmtree.PathsOf(keys, from, h, dedup)
		if len(keys) == 0 { // no keys: nil and an empty list with spare capacity behave alike
			ps2 := bmtree.PathsOf(nil, from, h, dedup)
			ps3 := bmtree.PathsOf(make([]string, 0, 4), from, h, dedup)
			if len(ps2) != len(ps) || len(ps3) != len(ps) {
				panic("PathsOf: nil and empty key lists give different results")
			}
		}
		l := make([][]int64, len(ps))
		for i, p := range ps {
			l[i] = wordOnes(p)
		}
		o = J{"paths": l}
	})
	em.Emit("pathsof", J{"in": in.m, "out": o, "abn": abn})
	em.Calls(1)
}

var edgeBytes = []byte{0x00, 0x01, 0x7f, 0x80, 0xfe, 0xff, 0x55, 0xaa}

// runBytes builds a string of n bytes out of runs of one byte value (0x00, 0xff, ...) of lengths around
// 8 and 16, aligned or not, separated by other bytes: chunked (8 bytes at a time) code treats all-zero or
// all-equal chunks specially.
func runBytes(r *rand.Rand, n int) []byte {
	b := make([]byte, 0, n)
	if r.Intn(2) == 0 { // misalign the first run
		for k := r.Intn(8); k > 0 && len(b) < n; k-- {
			b = append(b, byte(1+r.Intn(255)))
		}
	}
	for len(b) < n {
		v := []byte{0x00, 0x00, 0xff, 0x80, 0x01, 'a'}[r.Intn(6)]
		for k := []int{1, 2, 7, 8, 8, 9, 15, 16, 16, 17, 24}[r.Intn(11)]; k > 0 && len(b) < n; k-- {
			b = append(b, v)
		}
		for k := r.Intn(3); k > 0 && len(b) < n; k-- {
			b = append(b, byte(1+r.Intn(255)))
		}
	}
	return b
}

func randBytes(r *rand.Rand, n int) []byte {
	if n >= 9 && r.Intn(5) == 0 {
		return runBytes(r, n)
	}
	b := make([]byte, n)
	mode := r.Intn(3)
	for i := range b {
		switch mode {
		case 0:
			b[i] = edgeBytes[r.Intn(len(edgeBytes))]
		case 1:
			b[i] = byte(r.Intn(256))
		default:
			if r.Intn(2) == 0 {
				b[i] = edgeBytes[r.Intn(len(edgeBytes))]
			} else {
				b[i] = byte(r.Intn(256))
			}
		}
	}
	return b
}

func genC11(g *Gen) {
	r := g.R
	// all (from, w) for short strings
	for c := 0; c < g.N(6, 120); c++ {
		n := c % 7
		s := randBytes(r, n)
		for from := 0; from <= 8*n+9; from++ {
			for w := 0; w <= 32; w++ {
				g.Case("fromstr32", J{"s": bytesJ(s), "from": from, "w": w, "direct": true})
			}
		}
	}
	// longer strings, from near the end and random
	for c := 0; c < g.N(3000, 150000); c++ {
		n := r.Intn(40)
		s := randBytes(r, n)
		var from int
		switch r.Intn(3) {
		case 0:
			from = 8*n - r.Intn(45)
			if from < 0 {
				from = 0
			}
		case 1:
			from = 8*n + r.Intn(20)
		default:
			from = r.Intn(8*n + 1)
		}
		g.Case("fromstr32", J{"s": bytesJ(s), "from": from, "w": r.Intn(33), "direct": true})
	}
	// the (up to) five bytes a window touches drawn from {0x00, 0xff, random}, every combination, at every from%8:
	// a window whose whole bytes are all zero (or all ones) next to a partly used byte that is not
	for pat := 0; pat < 243; pat++ {
		for fb := 0; fb < 8; fb++ {
			if g.Quick() && (pat+fb)%2 != int(g.Seed%2) {
				continue
			}
			pre := r.Intn(3)
			s := randBytes(r, pre)
			for k, q := 0, pat; k < 5; k, q = k+1, q/3 {
				s = append(s, []byte{0x00, 0xff, byte(1 + r.Intn(254))}[q%3])
			}
			if pat%5 == 0 {
				s = append(s, byte(r.Intn(256)))
			}
			for _, w := range []int{32, 33 - fb, 25 + r.Intn(7), 1 + r.Intn(24)} {
				if w > 32 {
					w = 32
				}
				g.Case("fromstr32", J{"s": bytesJ(s), "from": 8*pre + fb, "w": w, "direct": true})
			}
		}
	}
	// long strings: 4 KiB, 8 KiB, 32 KiB, 64 KiB and their neighbours (8*len crosses 2^15, 2^16, 2^18, 2^19), windows
	// at the start, around the powers of two and at / beyond the end
	for _, n := range []int{4095, 4096, 4097, 8191, 8192, 8193, 32767, 32768, 32769, 65535, 65536, 65537, 100000} {
		s := randBytes(r, n)
		for _, at := range []int{0, 8 * 4095, 8 * 4096, 8 * 8192, 8 * 32767, 8 * 32768, 8 * 65536, 8*n - 40, 8*n - 8, 8 * n, 8*n + 8} {
			if at < 0 || at > 8*n+8 {
				continue
			}
			for c := 0; c < g.N(1, 12); c++ {
				from := at + r.Intn(17) - 8
				if from < 0 {
					from = 0
				}
				g.Case("fromstr32", J{"s": bytesJ(s), "from": from, "w": []int{32, 32, 17, 1 + r.Intn(32)}[r.Intn(4)], "direct": true})
			}
		}
	}
	// start bits up to MaxInt32: far beyond any string; from+w may not fit int32 (then only PathOf is called)
	for c := 0; c < g.N(300, 6000); c++ {
		const maxI32 = int64(1)<<31 - 1
		from := maxI32 - int64([]int{0, 1, 2, 7, 8, 30, 31, 32, 33, 34, 63, 64, 65, 1000}[r.Intn(14)])
		if r.Intn(5) == 0 {
			from = int64(1)<<30 + int64(r.Intn(1<<20))
		}
		w := int64(r.Intn(33))
		g.Case("fromstr32", J{"s": bytesJ(randBytes(r, r.Intn(6))), "from": from, "w": w, "direct": from+w <= maxI32})
	}
	// extreme path words: all-ones and all-zero prefixes of full length at heights 31/32 (the numerically largest and
	// smallest path words), first in the list, repeated, with and without dedup
	for c := 0; c < g.N(40, 600); c++ {
		h := []int{32, 32, 31, 30, 8, 1, 0}[r.Intn(7)]
		from := []int{0, 0, 8, 3}[r.Intn(4)]
		ff := string(bytes.Repeat([]byte{0xff}, 6))
		zz := string(make([]byte, 6))
		pool := []string{ff, ff, zz, ff[:4], zz[:4], "", "\xff\xff\xff\xfe\xff", ff[:3]}
		var keys []string
		for i := 1 + r.Intn(5); i > 0; i-- {
			keys = append(keys, pool[r.Intn(len(pool))])
		}
		if c%3 == 0 {
			keys[0] = ff
		}
		g.Case("pathsof", J{"keys": strsJ(keys), "from": from, "h": h, "dedup": c%4 != 3})
	}
	// no keys at all (nil after the JSON round trip), one empty key: every height incl. 0, with and without dedup
	for h := 0; h <= 32; h++ {
		for _, from := range []int{0, 3, 8} {
			for _, dedup := range []bool{true, false} {
				if h > 2 && h < 30 && (h+from)%5 != 0 {
					continue
				}
				g.Case("pathsof", J{"keys": [][]int64{}, "from": from, "h": h, "dedup": dedup})
				g.Case("pathsof", J{"keys": [][]int64{{}}, "from": from, "h": h, "dedup": dedup})
				g.Case("pathsof", J{"keys": [][]int64{{}, {}}, "from": from, "h": h, "dedup": dedup})
			}
		}
	}
	// neighbouring keys that agree on every byte of the window except its last one (a path of height h starting at
	// bit from touches 1..5 bytes): they differ in one bit of the last byte touched, inside or outside the window,
	// or one of them ends right before it; every from%8 and the heights around 32 - from%8 and 24 - from%8
	for c := 0; c < g.N(120, 3000); c++ {
		fb := c % 8
		from := 8*r.Intn(3) + fb
		h := []int{32, 31, 26, 25, 33 - fb, 32 - fb, 25 - fb, 24 - fb, 17 - fb, 9 - fb}[(c/8)%10]
		if h < 1 || h > 32 {
			h = 32
		}
		last := (from + h - 1) / 8 // index of the last byte the window touches
		common := randBytes(r, last)
		var keys []string
		for i := 2 + r.Intn(5); i > 0; i-- {
			k := append([]byte{}, common...)
			switch r.Intn(6) {
			case 0: // ends right before the last byte
			case 1:
				k = append(k, 0)
			default:
				b := byte(r.Intn(256))
				if r.Intn(2) == 0 && len(keys) > 0 && len(keys[len(keys)-1]) > last {
					b = keys[len(keys)-1][last] ^ (1 << uint(r.Intn(8))) // one bit away from its predecessor
				}
				k = append(k, b)
				if r.Intn(3) == 0 {
					k = append(k, randBytes(r, 1+r.Intn(2))...)
				}
			}
			keys = append(keys, string(k))
		}
		g.Case("pathsof", J{"keys": strsJ(keys), "from": from, "h": h, "dedup": c%3 != 2})
	}
	for c := 0; c < g.N(400, 15000); c++ {
		nk := 1 + r.Intn(8)
		base := randBytes(r, r.Intn(6))
		var keys [][]int64
		for i := 0; i < nk; i++ {
			var k []byte
			switch r.Intn(4) {
			case 0:
				k = append([]byte{}, base...) // duplicate of the base
			case 1:
				k = append(append([]byte{}, base...), randBytes(r, 1+r.Intn(3))...)
			case 2:
				if len(keys) > 0 {
					k = toBytesI(keys[len(keys)-1]) // equal to its predecessor
				}
			default:
				k = randBytes(r, r.Intn(7))
			}
			keys = append(keys, bytesJ(k))
		}
		g.Case("pathsof", J{"keys": keys, "from": r.Intn(50), "h": r.Intn(33), "dedup": r.Intn(3) != 0})
	}
}

func toBytesI(l []int64) []byte {
	b := make([]byte, len(l))
	for i, x := range l {
		b[i] = byte(x)
	}
	return b
}
