// +build !verif

package main

import (
	"io"

	"github.com/openacid/low/bitmap"
)

// Without the verif tag the unexported state is not observable: the corresponding fields are absent.

func hookedTables() string { return "" }

func tbReclaimed(tb *bitmap.TailBitmap) int64 { return -1 }

func swCursor(w io.Writer) (int64, bool) { return 0, false }
