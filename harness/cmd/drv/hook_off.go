//go:build !verif
// +build !verif

package main

import (
	"io"

	"github.com/openacid/low/bitmap"
)

// Without the verif tag the unexported state is not observable: the corresponding fields are absent.

func hookedTables() string { return "" }

func tbReclaimed(tb *bitmap.TailBitmap) int64 { return -1 }

func swCursor(w io.Writer) (int64, bool) { return 0, false }

func hookSelect32Single(ws []uint64, sidx []int32, i int32) int32 {
	fatalf("needs -tags verif")
	return 0
}
func hookIndexSelectU64(w uint64) uint64          { fatalf("needs -tags verif"); return 0 }
func hookSelectU64Indexed(w, idx, i uint64) int32 { fatalf("needs -tags verif"); return 0 }
