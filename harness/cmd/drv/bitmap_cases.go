package main

// Pure functions of package bitmap: C01 (rank), C02 (select), C13 (next/prev), C12 pure part
// (Of/OfMany/ToArray/Get*), C14 (Join/Getw/Slice). One event = one batch of calls on one input.

import (
	"math/rand"
	"sort"

	"github.com/openacid/low/bitmap"
)

func init() {
	exec := map[string]func(in In, em *Emitter){
		"masks": execMasks, "rank": execRank, "rankl": execRankL, "select": execSelect, "selectl": execSelectL, "scan": execScan,
		"of": execOf, "ofmany": execOfMany, "toarray": execToArray, "join": execJoin, "joinbig": execJoinBig, "slice": execSlice, "slicebig": execSliceBig, "perbig": execPerBig, "ofbig": execOfBig, "getbig": execGetBig, "scanbig": execScanBig,
		"bld": execBuilder,
	}
	trivBM := func(k string, in In) bool {
		if in.has("bm") {
			return len(in.O("bm").Is("ones")) == 0
		}
		return false
	}
	props["C01"] = &Prop{Gen: genC01, Exec: exec, Trivial: trivBM}
	props["C02"] = &Prop{Gen: genC02, Exec: exec, Trivial: trivBM}
	props["C13"] = &Prop{Gen: genC13, Exec: exec, Trivial: trivBM}
	props["C12"] = &Prop{Gen: genC12, Exec: exec, Trivial: func(k string, in In) bool {
		return k == "of" && len(in.Is("pos")) == 0 && !in.Bool("hasn")
	}}
	props["C12b"] = &Prop{Gen: genC12b, Exec: exec, Trivial: func(k string, in In) bool { return len(in.L("ops")) < 2 }}
	props["C14"] = &Prop{Gen: genC14, Exec: exec, Trivial: func(k string, in In) bool {
		return (k == "join" && len(toList(in.get("vals"))) == 0) || (k == "slice" && in.I("from") == in.I("to"))
	}}
}

// ---------------------------------------------------------------- input families

var wordPats = []func(r *rand.Rand) uint64{
	func(r *rand.Rand) uint64 { return 0 },
	func(r *rand.Rand) uint64 { return ^uint64(0) },
	func(r *rand.Rand) uint64 { return 1 },
	func(r *rand.Rand) uint64 { return 1 << 63 },
	func(r *rand.Rand) uint64 { return 1 << 31 },
	func(r *rand.Rand) uint64 { return 1 << 32 },
	func(r *rand.Rand) uint64 { return 0xaaaaaaaaaaaaaaaa },
	func(r *rand.Rand) uint64 { return 0x5555555555555555 },
	func(r *rand.Rand) uint64 { return r.Uint64() & r.Uint64() & r.Uint64() },      // sparse
	func(r *rand.Rand) uint64 { return r.Uint64() | r.Uint64() | r.Uint64() },      // dense
	func(r *rand.Rand) uint64 { return r.Uint64() },                                // random
	func(r *rand.Rand) uint64 { return ^uint64(0) &^ (1 << uint(r.Intn(64))) },     // all but one
	func(r *rand.Rand) uint64 { return 1<<uint(r.Intn(64)) | 1<<uint(r.Intn(64)) }, // one or two bits
	func(r *rand.Rand) uint64 { return uint64(r.Intn(256)) << uint(8*r.Intn(8)) },  // one byte
	func(r *rand.Rand) uint64 { return ^uint64(0) << uint(r.Intn(64)) },            // high run
	func(r *rand.Rand) uint64 { return ^uint64(0) >> uint(r.Intn(64)) },            // low run
	func(r *rand.Rand) uint64 { return 0xffffffff00000000 },
	func(r *rand.Rand) uint64 { return 0x00000000ffffffff },
	func(r *rand.Rand) uint64 { return 1<<63 | 1 },
	func(r *rand.Rand) uint64 { return r.Uint64() & 0xffffffff00000000 },
	func(r *rand.Rand) uint64 { return r.Uint64()&^0xff | r.Uint64()&r.Uint64()&0xff },
}

// patWords builds a bitmap of nw words, each from a pattern; with probability pzero a word is empty.
func patWords(r *rand.Rand, nw int, pzero float64) []uint64 {
	ws := make([]uint64, nw)
	same := -1
	if r.Intn(3) == 0 {
		same = r.Intn(len(wordPats)) // all words from the same pattern
	}
	for i := range ws {
		if r.Float64() < pzero {
			continue
		}
		k := same
		if k < 0 {
			k = r.Intn(len(wordPats))
		}
		ws[i] = wordPats[k](r)
	}
	return ws
}

// genBitmaps enumerates the shared bitmap families: every (word count, pattern) combination,
// all single-bit and adjacent-two-bit bitmaps over `singleWords` words, then n seeded ones.
func genBitmaps(g *Gen, n int, maxWords int, singleWords int, emit func(ws []uint64)) {
	r := g.R
	emit([]uint64{}) // the empty bitmap
	for nw := 1; nw <= maxWords; nw++ {
		for p := 0; p < 8; p++ { // the constant patterns, every word count (both parities)
			ws := make([]uint64, nw)
			for i := range ws {
				ws[i] = wordPats[p](r)
			}
			emit(ws)
		}
	}
	for b := 0; b < singleWords*64; b++ {
		ws := make([]uint64, singleWords)
		ws[b>>6] |= 1 << uint(b&63)
		emit(ws)
		if b+1 < singleWords*64 {
			ws2 := make([]uint64, singleWords)
			ws2[b>>6] |= 1 << uint(b&63)
			ws2[(b+1)>>6] |= 1 << uint((b+1)&63)
			emit(ws2)
		}
	}
	// long bitmaps of one constant pattern (all-ones, alternating, single bits ...) and of long runs: block-wise
	// or unrolled index code depends on 4/8/16-word alignment and on counts crossing 256, 1024, 4096
	for _, nw := range []int{12, 16, 17, 33, 64, 70} {
		for p := 1; p < 8; p += 1 + nw/33 {
			ws := make([]uint64, nw)
			for i := range ws {
				ws[i] = wordPats[p](r)
			}
			emit(ws)
		}
		ws := make([]uint64, nw) // a run of all-ones words starting at a random word, the rest sparse
		st := r.Intn(nw / 2)
		for i := range ws {
			if i >= st && i < st+4+r.Intn(nw/2) {
				ws[i] = ^uint64(0)
			} else if r.Intn(3) == 0 {
				ws[i] = 1 << uint(r.Intn(64))
			}
		}
		emit(ws)
	}
	// neighbouring words that are related as VALUES (equal, complementary, summing to 2^64, cancelling under xor),
	// alone among empty words, at every position relative to 4- and 8-word blocks: an emptiness test over a block
	// written with the wrong operator (w0^w1|..., w0+w1|...) is wrong for exactly such words
	reps := 1
	if !g.Quick() {
		reps = 4
	}
	for rep := 0; rep < reps; rep++ {
		for rel := 0; rel < 11; rel++ {
			for off := 1; off <= 9; off++ {
				var x uint64
				switch (rel + off + rep) % 3 {
				case 0:
					x = 1 << uint(r.Intn(64))
				case 1:
					x = r.Uint64() & r.Uint64() & r.Uint64()
				default:
					x = r.Uint64() | 1<<63
				}
				if x == 0 {
					x = 1 << 63
				}
				y := r.Uint64() | 1
				blk := [][]uint64{{x, x}, {x, ^x}, {x, -x}, {x, x, x, x}, {1 << 63, 1 << 63}, {1 << 63, 1 << 63, 1 << 63, 1 << 63},
					{^uint64(0), 1}, {x, y, x ^ y}, {x, y, -(x + y)}, {x, 0, x}, {x, 0, -x}}[rel]
				ws := make([]uint64, 20+rep)
				copy(ws[off:], blk)
				if (rel+off)%2 == 0 { // a 1-bit far behind the block, which a scan that skips the block finds instead
					ws[len(ws)-1-r.Intn(2)] |= 1 << uint(r.Intn(64))
				}
				if (rel+off)%3 == 0 {
					ws[0] |= 1 << uint(r.Intn(64))
				}
				emit(ws)
			}
		}
	}
	for i := 0; i < n; i++ {
		nw := 1 + r.Intn(maxWords)
		if r.Intn(4) == 0 {
			nw = 1 + r.Intn(3)
		}
		pz := []float64{0, 0, 0.2, 0.5, 0.8}[r.Intn(5)]
		emit(patWords(r, nw, pz))
	}
}

// ---------------------------------------------------------------- C01

func execMasks(in In, em *Emitter) {
	o := J{}
	abn := guard(func() {
		tab := func(t []uint64) [][]int64 {
			r := make([][]int64, len(t))
			for i, w := range t {
				r[i] = wordOnes(w)
			}
			return r
		}
		o["Mask"], o["RMask"] = tab(bitmap.Mask[:]), tab(bitmap.RMask[:])
		o["MaskUpto"], o["RMaskUpto"] = tab(bitmap.MaskUpto[:]), tab(bitmap.RMaskUpto[:])
		o["Bit"], o["RBit"] = tab(bitmap.Bit[:]), tab(bitmap.RBit[:])
	})
	em.Emit("masks", J{"in": in.m, "out": o, "abn": abn})
	em.Calls(386)
}

func pairs(n int, f func(i int32) (int32, int32)) [][]int64 {
	r := make([][]int64, n)
	for i := 0; i < n; i++ {
		a, b := f(int32(i))
		r[i] = []int64{num(int64(a)), num(int64(b))}
	}
	return r
}

func execRank(in In, em *Emitter) {
	ws := in.BM("bm")
	o := J{}
	n := len(ws) * 64
	abn := guard(func() {
		idx64 := bitmap.IndexRank64(ws, emptyBoolOpts()...)
		idx64f := bitmap.IndexRank64(ws, false)
		idx64t := bitmap.IndexRank64(ws, true)
		idx128 := bitmap.IndexRank128(ws)
		o["idx64"], o["idx64t"], o["idx128"] = nums32(idx64), nums32(idx64t), nums32(idx128)
		o["idx64f"] = nums32(idx64f)
		o["r64"] = pairs(n, func(i int32) (int32, int32) { return bitmap.Rank64(ws, idx64, i) })
		o["r64t"] = pairs(n, func(i int32) (int32, int32) { return bitmap.Rank64(ws, idx64t, i) })
		o["r128"] = pairs(n, func(i int32) (int32, int32) { return bitmap.Rank128(ws, idx128, i) })
	})
	if abn != "" {
		o = J{}
	}
	em.Emit("rank", J{"in": in.m, "out": o, "abn": abn})
	em.Calls(3*n + 4)
}

// longWords builds a long bitmap from the list of its 1-bits (sparse) or 0-bits (dense).
func longWords(in In) []uint64 {
	nw := in.Int("nw")
	ws := make([]uint64, nw+1)
	ws[nw] = 0x5555555555555555 // a word behind the view
	ws = ws[:nw]
	dense := in.Bool("dense")
	if dense {
		for i := range ws {
			ws[i] = ^uint64(0)
		}
	}
	for _, p := range in.Is("list") {
		if dense {
			ws[p>>6] &^= 1 << uint(p&63)
		} else {
			ws[p>>6] |= 1 << uint(p&63)
		}
	}
	return ws
}

func pairsAt(xs []int32, f func(i int32) (int32, int32)) [][]int64 {
	r := make([][]int64, len(xs))
	for j, x := range xs {
		a, b := f(x)
		r[j] = []int64{num(int64(a)), num(int64(b))}
	}
	return r
}

func execRankL(in In, em *Emitter) {
	ws := longWords(in)
	pos := in.I32s("pos")
	o := J{}
	abn := guard(func() {
		idx64, idx64t, idx128 := bitmap.IndexRank64(ws), bitmap.IndexRank64(ws, true), bitmap.IndexRank128(ws)
		o = J{"idx64": nums32(idx64), "idx64t": nums32(idx64t), "idx128": nums32(idx128),
			"r64":  pairsAt(pos, func(i int32) (int32, int32) { return bitmap.Rank64(ws, idx64, i) }),
			"r64t": pairsAt(pos, func(i int32) (int32, int32) { return bitmap.Rank64(ws, idx64t, i) }),
			"r128": pairsAt(pos, func(i int32) (int32, int32) { return bitmap.Rank128(ws, idx128, i) })}
	})
	em.Emit("rankl", J{"in": in.m, "out": o, "abn": abn})
	em.Calls(3*len(pos) + 3)
}

func execSelectL(in In, em *Emitter) {
	ws := longWords(in)
	is := in.I32s("is")
	o := J{}
	abn := guard(func() {
		sidx := bitmap.IndexSelect32(ws)
		sidx2, ridx := bitmap.IndexSelect32R64(ws)
		o = J{"sidx": nums32(sidx), "sidx2": nums32(sidx2), "ridx": nums32(ridx),
			"sel":  pairsAt(is, func(i int32) (int32, int32) { return bitmap.Select32(ws, sidx, i) }),
			"selr": pairsAt(is, func(i int32) (int32, int32) { return bitmap.Select32R64(ws, sidx2, ridx, i) })}
	})
	em.Emit("selectl", J{"in": in.m, "out": o, "abn": abn})
	em.Calls(2*len(is) + 2)
}

// execPerBig: rank, select and scans on a periodic bitmap of up to 2^31 - 64 bits (Trace_Bitmap!PerBigOK): word i is
// all ones, the even bits, or bits 0 and 63 for i%3 = 0, 1, 2. Index slices are reported at sampled entries.
func execPerBig(in In, em *Emitter) {
	nw := in.Int("nw")
	pos, is := in.I32s("pos"), in.I32s("is")
	wk, sj := in.Is("wk"), in.Is("sj")
	rs := toList(in.get("ranges"))
	o := J{}
	abn := guard(func() {
		pat := [3]uint64{^uint64(0), 0x5555555555555555, 1<<63 | 1}
		ws := make([]uint64, nw)
		for i := range ws {
			ws[i] = pat[i%3]
		}
		at := func(idx []int32, ks []int64, f func(k int64) int64) []int64 {
			r := make([]int64, len(ks))
			for j, k := range ks {
				r[j] = -7
				if e := f(k); e >= 0 && e < int64(len(idx)) {
					r[j] = num(int64(idx[e]))
				}
			}
			return r
		}
		same := func(k int64) int64 { return k }
		if len(pos) > 0 {
			idx64, idx64t, idx128 := bitmap.IndexRank64(ws), bitmap.IndexRank64(ws, true), bitmap.IndexRank128(ws)
			o["n64"], o["n64t"], o["n128"] = len(idx64), len(idx64t), len(idx128)
			o["idx64"], o["idx64t"] = at(idx64, wk, same), at(idx64t, wk, same)
			o["idx128"] = at(idx128, wk, func(k int64) int64 { return k / 2 })
			o["idx64tlast"] = num(int64(idx64t[len(idx64t)-1]))
			o["r64"] = pairsAt(pos, func(i int32) (int32, int32) { return bitmap.Rank64(ws, idx64, i) })
			o["r64t"] = pairsAt(pos, func(i int32) (int32, int32) { return bitmap.Rank64(ws, idx64t, i) })
			o["r128"] = pairsAt(pos, func(i int32) (int32, int32) { return bitmap.Rank128(ws, idx128, i) })
		}
		if len(is) > 0 {
			sidx := bitmap.IndexSelect32(ws)
			sidx2, ridx := bitmap.IndexSelect32R64(ws)
			o["nsidx"], o["nsidx2"], o["nridx"] = len(sidx), len(sidx2), len(ridx)
			o["sidx"], o["sidx2"] = at(sidx, sj, same), at(sidx2, sj, same)
			o["sel"] = pairsAt(is, func(i int32) (int32, int32) { return bitmap.Select32(ws, sidx, i) })
			o["selr"] = pairsAt(is, func(i int32) (int32, int32) { return bitmap.Select32R64(ws, sidx2, ridx, i) })
		}
		next := make([]int64, len(rs))
		prev := make([]int64, len(rs))
		for j, x := range rs {
			ie := toIs(x)
			next[j] = num(int64(bitmap.NextOne(ws, int32(ie[0]), int32(ie[1]))))
			prev[j] = -7
			if ie[1] >= 1 {
				prev[j] = num(int64(bitmap.PrevOne(ws, int32(ie[0]), int32(ie[1]))))
			}
		}
		o["next"], o["prev"] = next, prev
	})
	if abn != "" {
		o = J{}
	}
	em.Emit("perbig", J{"in": in.m, "out": o, "abn": abn})
	em.Calls(3*len(pos) + 2*len(is) + 2*len(rs) + 5)
}

// genPerBig: thorough tier only. part = "rank" | "select" | "scan".
func genPerBig(g *Gen, part string) {
	r := g.R
	sizes := []int64{1<<25 - 1, 1<<25 - 2, 1<<24 + 1, 1 << 22, 1<<15 + 1, 1<<16 + 2, 1<<17 - 1}
	if g.Quick() { // word counts and index lengths beyond 2^15 and 2^16 (16-bit counters); the 2^31-bit objects are thorough only
		sizes = []int64{1<<15 + 1, 1<<16 + 2, 1<<17 - 1}
	}
	for _, nw := range sizes {
		N := nw * 64
		n := N / 192 * 98 // about the number of 1-bits
		near := func(c int64, lim int64) []int64 {
			var l []int64
			for d := int64(-3); d <= 3; d++ {
				if p := c + d; p >= 0 && p < lim {
					l = append(l, p)
				}
			}
			return l
		}
		in := J{"nw": nw, "pos": []int64{}, "is": []int64{}, "wk": []int64{}, "sj": []int64{}, "ranges": [][]int64{}}
		var pos, is, wk, sj []int64
		var ranges [][]int64
		for _, c := range []int64{0, N - 1, 1 << 16, 1 << 21, 1 << 22, 1 << 24, 1 << 30, 1<<30 + 1<<29, 3 << 29, N / 2, 192 * 1000, N - 192} {
			pos = append(pos, near(c, N)...)
			wk = append(wk, near(c/64, nw)...)
			for _, e := range near(c, N) {
				ranges = append(ranges, []int64{e, N}, []int64{e, min64(e+70, N)}, []int64{0, e + 1}, []int64{max64(e-200, 0), e + 1})
			}
		}
		for _, c := range []int64{0, n - 4, 1 << 15, 1 << 16, 1 << 20, 1 << 21, 1 << 24, 1 << 29, 1 << 30, n / 2, 98 * 1000} {
			is = append(is, near(c, n-3)...)
			sj = append(sj, near(c/32, (n-3)/32)...)
		}
		for k := 0; k < 30; k++ {
			pos = append(pos, r.Int63n(N))
			is = append(is, r.Int63n(n-3))
			wk = append(wk, r.Int63n(nw))
			sj = append(sj, r.Int63n((n-3)/32))
			a, b := r.Int63n(N), r.Int63n(N+1)
			if a > b {
				a, b = b, a
			}
			ranges = append(ranges, []int64{a, b})
		}
		switch part {
		case "rank":
			in["pos"], in["wk"] = pos, wk
		case "select":
			in["is"], in["sj"] = is, sj
		default:
			in["ranges"] = ranges
		}
		g.Case("perbig", in)
	}
}

func max64(a, b int64) int64 {
	if a > b {
		return a
	}
	return b
}

// genLong emits long bitmaps (beyond 2^16 bits: 16-bit block counters, 65536-bit superblocks) as lists of
// their 1-bits or 0-bits, with sampled positions / ranks around the list entries and the block boundaries.
func genLong(g *Gen, kind string, n int) {
	r := g.R
	for c := 0; c < n; c++ {
		nw := []int{1024, 1025, 1100, 2048, 2100, 4100}[r.Intn(6)]
		clustered := c%2 == 0
		if clustered {
			nw = []int{2048, 3072, 4100, 8192, 3073}[r.Intn(5)]
		}
		nbits := int64(nw * 64)
		dense := c%4 >= 2
		set := map[int64]bool{}
		if clustered {
			// a few clusters of list entries (5..40 in 1..3 adjacent words), often starting exactly on a multiple of
			// 65536 bits, with whole 65536-bit aligned chunks between them untouched: groups of 32 entries that span
			// more than 65536 bits, entries sharing a word with the first entry of the next group, chunks that are
			// entirely 0 (or, for dense, entirely 1) followed by an entry in bit 0 of the next word
			// one aligned chunk is kept free of entries, and a cluster starts in bit 0 of the word right behind it
			free := int64(r.Intn(nw/1024 - 1))
			for k := 3 + r.Intn(6); k >= 0; k-- {
				w := int64(r.Intn(nw))
				if r.Intn(2) == 0 {
					w = 1024 * int64(r.Intn(nw/1024+1))
					if r.Intn(3) == 0 {
						w--
					}
				}
				if k == 0 {
					w = 1024 * (free + 1)
				}
				if w < 0 || w >= int64(nw) || (w >= 1024*free-3 && w < 1024*(free+1)) {
					continue
				}
				set[w*64] = r.Intn(4) != 0 || k == 0
				if k == 0 {
					set[w*64+1+int64(r.Intn(20))] = true
				}
				span := int64(64 * (1 + r.Intn(3)))
				for e := 5 + r.Intn(36); e > 0; e-- {
					if p := w*64 + r.Int63n(span); p < nbits {
						set[p] = true
					}
				}
				if r.Intn(2) == 0 {
					set[w*64+63] = true
				}
			}
			for p, on := range set {
				if !on {
					delete(set, p)
				}
			}
		}
		for k := 20 + r.Intn(150); k > 0 && !clustered; k-- {
			var p int64
			switch r.Intn(4) {
			case 0:
				p = int64(1<<16)*int64(1+r.Intn(int(nbits>>16))) + int64(r.Intn(5)) - 2 // around multiples of 65536
			case 1:
				p = int64(1+r.Intn(nw-1))*64 + int64(r.Intn(3)) - 1
			default:
				p = r.Int63n(nbits)
			}
			if p >= 0 && p < nbits {
				set[p] = true
			}
		}
		var list []int64
		for p := range set {
			list = append(list, p)
		}
		sortI64(list)
		if clustered && !dense {
			// make the first entry behind the free chunk the last (32nd) of its group of 32 (drop a few of the first entries):
			// its group then spans more than 65536 bits and the next group starts in the word of its successor
			for j := 0; j+2 < len(list); j++ {
				if list[j+1]-list[j] > 65536 && list[j+1]>>6 == list[j+2]>>6 {
					if drop := (j + 2) % 32; drop <= j-1 && r.Intn(4) != 0 {
						list = list[drop:]
					}
					break
				}
			}
		}
		in := J{"nw": nw, "dense": dense, "list": list}
		if kind == "rankl" {
			pos := []int64{0, nbits - 1, 65535, 65536, 65537, 131071, 131072}
			for _, p := range list {
				if r.Intn(3) == 0 {
					pos = append(pos, p-1, p, p+1)
				}
			}
			for k := 0; k < 40; k++ {
				pos = append(pos, r.Int63n(nbits))
			}
			var ok []int64
			for _, p := range pos {
				if p >= 0 && p < nbits {
					ok = append(ok, p)
				}
			}
			in["pos"] = ok
		} else {
			nones := int64(len(list))
			if dense {
				nones = nbits - int64(len(list))
			}
			is := []int64{0, nones - 1, nones - 2, 31, 32, 33, 65535, 65536, 65537, 32767, 32768}
			for k := 0; k < 60; k++ {
				is = append(is, r.Int63n(nones))
			}
			if clustered && !dense {
				for i := int64(0); i < nones; i++ { // every rank
					is = append(is, i)
				}
			}
			if dense {
				for _, z := range list { // ranks right before and after a 0-bit
					i := z - int64(len(list)) // rough neighbourhood
					is = append(is, i, i+1, z-1, z)
				}
			}
			var ok []int64
			for _, i := range is {
				if i >= 0 && i < nones {
					ok = append(ok, i)
				}
			}
			in["is"] = ok
		}
		g.Case(kind, in)
	}
}

func genC01(g *Gen) {
	g.Case("masks", J{})
	genPerBig(g, "rank")
	genLong(g, "rankl", g.N(12, 120))
	genBitmaps(g, g.N(1200, 40000), 10, 3, func(ws []uint64) {
		g.Case("rank", J{"bm": bmJ(ws)})
	})
	// long bitmaps, few: index entries far from the start
	for i := 0; i < g.N(6, 100); i++ {
		g.Case("rank", J{"bm": bmJ(patWords(g.R, 20+g.R.Intn(30), 0.1))})
	}
}

// ---------------------------------------------------------------- C02

func execSelect(in In, em *Emitter) {
	ws := in.BM("bm")
	o := J{}
	n := 0
	for _, w := range ws {
		for ; w != 0; w &= w - 1 {
			n++
		}
	}
	abn := guard(func() {
		sidx := bitmap.IndexSelect32(ws)
		sidx2, ridx := bitmap.IndexSelect32R64(ws)
		o["sidx"], o["sidx2"], o["ridx"] = nums32(sidx), nums32(sidx2), nums32(ridx)
		o["sel"] = pairs(n, func(i int32) (int32, int32) { return bitmap.Select32(ws, sidx, i) })
		o["selr"] = pairs(n, func(i int32) (int32, int32) { return bitmap.Select32R64(ws, sidx2, ridx, i) })
	})
	if abn != "" {
		o = J{}
	}
	em.Emit("select", J{"in": in.m, "out": o, "abn": abn})
	em.Calls(2*n + 2)
}

func genC02(g *Gen) {
	r := g.R
	emit := func(ws []uint64) { g.Case("select", J{"bm": bmJ(ws)}) }
	genPerBig(g, "select")
	genLong(g, "selectl", g.N(12, 120))
	genBitmaps(g, g.N(1000, 40000), 8, 2, emit)
	// every single-byte word b << 8j: the whole 256x8 in-byte lookup table through the API
	for b := 1; b < 256; b++ {
		for j := 0; j < 8; j++ {
			if g.Quick() && (b*8+j)%4 != int(g.Seed%4) {
				g.n++ // keep case numbering aligned across tiers' shards
				continue
			}
			emit([]uint64{uint64(b) << uint(8*j)})
		}
	}
	// exactly 32k-1, 32k, 32k+1 ones, spread over the words
	for k := 1; k <= 6; k++ {
		for d := -1; d <= 1; d++ {
			for rep := 0; rep < g.N(2, 10); rep++ {
				nw := k/2 + 1 + r.Intn(4)
				total := 32*k + d
				ws := make([]uint64, nw)
				for c := 0; c < total; {
					p := r.Intn(nw * 64)
					if ws[p>>6]>>uint(p&63)&1 == 0 {
						ws[p>>6] |= 1 << uint(p&63)
						c++
					}
				}
				emit(ws)
			}
		}
	}
	// ones in the first and last word only, 1..6 empty words between; dense words at checkpoints
	for gap := 1; gap <= 6; gap++ {
		for rep := 0; rep < g.N(3, 20); rep++ {
			ws := make([]uint64, gap+2)
			ws[0] = wordPats[r.Intn(len(wordPats))](r) | 1<<uint(r.Intn(64))
			ws[gap+1] = wordPats[r.Intn(len(wordPats))](r) | 1<<uint(r.Intn(64))
			if rep%3 == 2 {
				ws[0] = ^uint64(0)
			}
			emit(ws)
		}
	}
	// one 1-bit at the boundaries 7,8,15,16,31,32,63 of several words
	for _, b := range []uint{7, 8, 15, 16, 31, 32, 63, 0} {
		for _, nw := range []int{1, 2, 5} {
			ws := make([]uint64, nw)
			for i := range ws {
				ws[i] = 1<<b | uint64(r.Intn(2))<<uint(r.Intn(64))
			}
			emit(ws)
		}
	}
	for i := 0; i < g.N(4, 60); i++ {
		emit(patWords(r, 20+r.Intn(30), 0.3))
	}
}

// ---------------------------------------------------------------- C13

func execScan(in In, em *Emitter) {
	ws := in.BM("bm")
	rs := toList(in.get("ranges"))
	next := make([]int64, len(rs))
	prev := make([]int64, len(rs))
	abn := guard(func() {
		for j, x := range rs {
			ie := toIs(x)
			i, end := int32(ie[0]), int32(ie[1])
			next[j] = num(int64(bitmap.NextOne(ws, i, end)))
			if end >= 1 {
				prev[j] = num(int64(bitmap.PrevOne(ws, i, end)))
			} else {
				prev[j] = -7 // not called: outside PrevOne's domain
			}
		}
	})
	o := J{"next": next, "prev": prev}
	if abn != "" {
		o = J{}
	}
	em.Emit("scan", J{"in": in.m, "out": o, "abn": abn})
	em.Calls(2 * len(rs))
}

func execScanBig(in In, em *Emitter) {
	rs := toList(in.get("ranges"))
	next := make([]int64, len(rs))
	prev := make([]int64, len(rs))
	abn := guard(func() {
		ws := in.BM("bm")
		for j, x := range rs {
			ie := toIs(x)
			i, end := int32(ie[0]), int32(ie[1])
			next[j] = num(int64(bitmap.NextOne(ws, i, end)))
			prev[j] = -7
			if end >= 1 {
				prev[j] = num(int64(bitmap.PrevOne(ws, i, end)))
			}
		}
	})
	o := J{"next": next, "prev": prev}
	if abn != "" {
		o = J{}
	}
	em.Emit("scanbig", J{"in": in.m, "out": o, "abn": abn})
	em.Calls(2 * len(rs))
}

func genC13(g *Gen) {
	r := g.R
	genPerBig(g, "scan")
	if !g.Quick() { // sparse bitmaps of 2^31 bits and a little less: scans in and into the last words, empty tails
		const maxI32 = int64(1)<<31 - 1
		for c := 0; c < 8; c++ {
			nw := []int64{1 << 25, 1 << 25, 1<<25 - 1, 1 << 25, 1<<25 - 1, 1 << 24, 1 << 25, 1 << 25}[c]
			N := nw * 64
			top := N - 1
			if top > maxI32 {
				top = maxI32
			}
			ones := map[int64]bool{5: true, 1 << 30: true}
			switch c % 4 {
			case 0: // the last word is empty
				ones[N-64-1], ones[N-130] = true, true
			case 1: // one bit in the last word
				ones[N-64+int64(r.Intn(60))] = true
			case 2: // the very last bits
				ones[top], ones[top-1] = true, true
			default: // nothing in the last 1000 words
				ones[N-64*1000-3] = true
			}
			var ol []int64
			for p := range ones {
				if p >= 0 && p <= top {
					ol = append(ol, p)
				}
			}
			sortI64(ol)
			var pts []int64
			for _, p := range append(ol, 0, top, top-1, top-62, top-63, top-64, top-65, top-127, top-128, N-64*1000, N-64*1001+1) {
				for d := int64(-1); d <= 1; d++ {
					if q := p + d; q >= 0 && q <= top {
						pts = append(pts, q)
					}
				}
			}
			var ranges [][]int64
			for _, i := range pts {
				for _, e := range pts {
					if i <= e && (i >= top-70000 || e <= i+200 || r.Intn(40) == 0) && len(ranges) < 700 {
						ranges = append(ranges, []int64{i, e})
					}
				}
				if N <= maxI32 {
					ranges = append(ranges, []int64{i, N})
				}
			}
			g.Case("scanbig", J{"bm": J{"nw": nw, "ones": ol}, "ranges": ranges})
		}
	}
	emit := func(ws []uint64) {
		n := int64(len(ws) * 64)
		if n == 0 {
			return
		}
		// candidate end points: 64k-1, 64k, 64k+1 for every word plus random ones and the 1-bits' neighbours
		pts := map[int64]bool{0: true, n: true}
		for k := int64(0); k <= int64(len(ws)); k++ {
			for _, d := range []int64{-1, 0, 1} {
				if p := 64*k + d; p >= 0 && p <= n {
					pts[p] = true
				}
			}
		}
		for c := 0; c < 6; c++ {
			pts[r.Int63n(n+1)] = true
		}
		ones := onesOf(ws)
		for c := 0; c < 4 && len(ones) > 0; c++ {
			p := ones[r.Intn(len(ones))]
			pts[p] = true
			pts[p+1] = true
		}
		var pl []int64
		for p := int64(0); p <= n; p++ { // deterministic order
			if pts[p] {
				pl = append(pl, p)
			}
		}
		if len(pl) > 70 { // long bitmaps: a seeded sample of the candidate end points, always with the 1-bits' neighbours
			keep := map[int64]bool{0: true, n: true}
			for _, p := range ones {
				keep[p], keep[p+1] = true, true
			}
			for len(keep) < 70 {
				keep[pl[r.Intn(len(pl))]] = true
			}
			var pl2 []int64
			for _, p := range pl {
				if keep[p] {
					pl2 = append(pl2, p)
				}
			}
			pl = pl2
		}
		var ranges [][]int64
		for _, i := range pl {
			for _, e := range pl {
				if i <= e && i < n {
					ranges = append(ranges, []int64{i, e})
				}
			}
		}
		maxRanges := 450
		if len(ones) > 400 {
			maxRanges = 40 // dense long bitmaps: the definition is evaluated per range over all 1-bits
		}
		if len(ranges) > maxRanges {
			r.Shuffle(len(ranges), func(a, b int) { ranges[a], ranges[b] = ranges[b], ranges[a] })
			ranges = ranges[:maxRanges]
		}
		g.Case("scan", J{"bm": bmJ(ws), "ranges": ranges})
	}
	genBitmaps(g, g.N(800, 30000), 7, 6, emit)
	// long sparse bitmaps: a handful of 1-bits over 300..2100 words (scans over hundreds of empty words)
	for c := 0; c < g.N(10, 300); c++ {
		nw := 300 + r.Intn(1801)
		ws := make([]uint64, nw)
		for k := 2 + r.Intn(8); k > 0; k-- {
			ws[r.Intn(nw)] |= 1 << uint([]int{0, 63, r.Intn(64)}[r.Intn(3)])
		}
		emit(ws)
	}
	// runs of exactly 1024, 1025, 2048, 2049 ... empty words (65536-bit blocks that block-wise scans skip) between
	// 1-bits, the bits sitting in the first and last positions of the words around the run; scans starting in, right
	// before and right behind the first word and ending in, right before and right behind the word after the run
	for c := 0; c < g.N(8, 120)+g.N(4, 14); c++ {
		lead := []int{0, 1, 2, 5}[r.Intn(4)]
		run := []int{1024, 1024, 1025, 2048, 2049, 1023, 2050, 3072}[c%8]
		if c >= g.N(8, 120) { // word counts around 2^15 and 2^16 (16-bit word counters)
			run = []int{32768, 65536, 32767, 65537, 32769, 65535, 70000, 40000, 98304, 131072, 131073, 16384, 49152, 65534}[(c-g.N(8, 120)+int(g.Seed)*4)%14]
		}
		nw := lead + 1 + run + 1 + r.Intn(3)
		ws := make([]uint64, nw, nw+1)
		first, after := lead, lead+1+run // the word before the run and the word behind it
		var bits []int64
		for k := 1 + r.Intn(2); k > 0; k-- {
			b := []int{0, 1, 63, r.Intn(64)}[r.Intn(4)]
			ws[first] |= 1 << uint(b)
			bits = append(bits, int64(first*64+b))
		}
		if c%3 == 1 {
			ws[first] = 0 // nothing before the run either
		}
		for k := 1 + r.Intn(2); k > 0; k-- {
			b := []int{0, 5, 63, r.Intn(64)}[r.Intn(4)]
			ws[after] |= 1 << uint(b)
			bits = append(bits, int64(after*64+b))
		}
		n := int64(nw * 64)
		pts := []int64{0, 1, n, n - 1}
		for _, w := range []int{first, first + 1, after, after + 1} {
			for _, d := range []int64{-1, 0, 1, 2, 63, 64} {
				pts = append(pts, int64(w*64)+d)
			}
		}
		for _, b := range bits {
			pts = append(pts, b-1, b, b+1, b+2)
		}
		var ranges [][]int64
		for _, i := range pts {
			for _, e := range pts {
				if 0 <= i && i <= e && i < n && e <= n && len(ranges) < 900 {
					ranges = append(ranges, []int64{i, e})
				}
			}
		}
		g.Case("scan", J{"bm": bmJ(ws), "ranges": ranges})
	}
	// 1-bits separated by 1..5 all-zero words, bits at offsets 0 and 63
	for gap := 1; gap <= 5; gap++ {
		for rep := 0; rep < g.N(6, 40); rep++ {
			nw := gap + 2 + r.Intn(3)
			ws := make([]uint64, nw)
			a := r.Intn(nw - gap - 1)
			bits := []uint{0, 63, uint(r.Intn(64)), 5}
			ws[a] = 1 << bits[r.Intn(4)]
			ws[a+gap+1] = 1 << bits[r.Intn(4)]
			if rep%4 == 3 {
				ws[a] |= 1 << bits[r.Intn(4)]
			}
			emit(ws)
		}
	}
}

// ---------------------------------------------------------------- C12 (pure part)

// execOfBig: Of with positions up to 2^31 - 1 (a 256 MiB bitmap, sparse), ToArray back, Get / SafeGet around the
// listed positions and the end (Trace_Bitmap!OfBigOK).
func execOfBig(in In, em *Emitter) {
	pos := in.I32s("pos")
	hasn := in.Bool("hasn")
	n := in.I32("n")
	probes := in.I32s("probes")
	o := J{}
	abn := guard(func() {
		var ws []uint64
		if hasn {
			ws = bitmap.Of(pos, n)
		} else {
			ws = bitmap.Of(pos, emptyOpts()...)
		}
		o["nw"] = len(ws)
		o["ones"] = onesOfSparse(ws)
		o["arr"] = nums32(bitmap.ToArray(ws))
		var get, get1, sget, sget1 [][]int64
		for _, i := range probes {
			sget = append(sget, wordOnes(bitmap.SafeGet(ws, i)))
			sget1 = append(sget1, wordOnes(bitmap.SafeGet1(ws, i)))
			if i >= 0 && int64(i) < int64(len(ws))*64 {
				get = append(get, wordOnes(bitmap.Get(ws, i)))
				get1 = append(get1, wordOnes(bitmap.Get1(ws, i)))
			} else {
				get = append(get, []int64{})
				get1 = append(get1, []int64{})
			}
		}
		o["get"], o["get1"], o["sget"], o["sget1"] = get, get1, sget, sget1
	})
	if abn != "" {
		o = J{}
	}
	em.Emit("ofbig", J{"in": in.m, "out": o, "abn": abn})
	em.Calls(2 + 4*len(probes))
}

func execGetBig(in In, em *Emitter) {
	probes := in.I32s("probes")
	o := J{}
	abn := guard(func() {
		ws := in.BM("bm")
		var get, get1, sget, sget1 [][]int64
		for _, i := range probes {
			sget = append(sget, wordOnes(bitmap.SafeGet(ws, i)))
			sget1 = append(sget1, wordOnes(bitmap.SafeGet1(ws, i)))
			if i >= 0 && int64(i) < int64(len(ws))*64 {
				get = append(get, wordOnes(bitmap.Get(ws, i)))
				get1 = append(get1, wordOnes(bitmap.Get1(ws, i)))
			} else {
				get = append(get, []int64{})
				get1 = append(get1, []int64{})
			}
		}
		o["get"], o["get1"], o["sget"], o["sget1"] = get, get1, sget, sget1
	})
	if abn != "" {
		o = J{}
	}
	em.Emit("getbig", J{"in": in.m, "out": o, "abn": abn})
	em.Calls(4 * len(probes))
}

func execOf(in In, em *Emitter) {
	pos := in.I32s("pos")
	hasn := in.Bool("hasn")
	n := in.I32("n")
	probes := in.I32s("probes")
	o := J{}
	abn := guard(func() {
		var ws []uint64
		if hasn {
			ws = bitmap.Of(pos, n)
		} else {
			ws = bitmap.Of(pos, emptyOpts()...)
		}
		o["bm"] = bmJ(ws)
		o["arr"] = nums32(bitmap.ToArray(ws))
		// the same bitmap as a slice with spare capacity holding garbage beyond its length
		spare := make([]uint64, len(ws)+3)
		for i := range spare {
			spare[i] = ^uint64(0)
		}
		copy(spare, ws)
		view := spare[:len(ws)]
		var get, get1, sget, sget1, sgetc, sget1c [][]int64
		for _, i := range probes {
			sget = append(sget, wordOnes(bitmap.SafeGet(ws, i)))
			sget1 = append(sget1, wordOnes(bitmap.SafeGet1(ws, i)))
			sgetc = append(sgetc, wordOnes(bitmap.SafeGet(view, i)))
			sget1c = append(sget1c, wordOnes(bitmap.SafeGet1(view, i)))
			if i >= 0 && int(i) < len(ws)*64 {
				get = append(get, wordOnes(bitmap.Get(ws, i)))
				get1 = append(get1, wordOnes(bitmap.Get1(ws, i)))
			} else {
				get = append(get, []int64{})
				get1 = append(get1, []int64{})
			}
		}
		if get == nil {
			get, get1, sget, sget1, sgetc, sget1c = [][]int64{}, [][]int64{}, [][]int64{}, [][]int64{}, [][]int64{}, [][]int64{}
		}
		o["get"], o["get1"], o["sget"], o["sget1"], o["sgetc"], o["sget1c"] = get, get1, sget, sget1, sgetc, sget1c
		o["arrc"] = nums32(bitmap.ToArray(view))
	})
	if abn != "" {
		o = J{}
	}
	em.Emit("of", J{"in": in.m, "out": o, "abn": abn})
	em.Calls(3 + 6*len(probes))
}

func execOfMany(in In, em *Emitter) {
	sl := toList(in.get("subs"))
	subs := make([][]int32, len(sl))
	for i, x := range sl {
		for _, v := range toIs(x) {
			subs[i] = append(subs[i], int32(v))
		}
	}
	sizes := in.I32s("sizes")
	o := J{}
	abn := guard(func() { o["bm"] = bmJ(bitmap.OfMany(subs, sizes)) })
	if abn != "" {
		o = J{}
	}
	em.Emit("ofmany", J{"in": in.m, "out": o, "abn": abn})
	em.Calls(1)
}

func execToArray(in In, em *Emitter) {
	ws := in.BM("bm")
	o := J{}
	abn := guard(func() {
		arr := bitmap.ToArray(ws)
		o["arr"] = nums32(arr)
		o["back"] = bmJ(bitmap.Of(arr))
	})
	if abn != "" {
		o = J{}
	}
	em.Emit("toarray", J{"in": in.m, "out": o, "abn": abn})
	em.Calls(2)
}

// ascPositions draws an ascending position list with word-boundary positions and large gaps.
func ascPositions(r *rand.Rand) []int64 {
	var pos []int64
	switch r.Intn(6) {
	case 0:
		return []int64{}
	case 1:
		b := []int64{0, 1, 62, 63, 64, 65, 127, 128, 129, 191, 192, 200, 511, 512, 1000}
		for _, p := range b {
			if r.Intn(2) == 0 {
				pos = append(pos, p)
			}
		}
		return append([]int64{}, pos...)
	}
	p := int64(0)
	if r.Intn(3) == 0 {
		p = int64(r.Intn(300))
	}
	n := 1 + r.Intn(20)
	for i := 0; i < n; i++ {
		pos = append(pos, p)
		switch r.Intn(5) {
		case 0:
			p += 1
		case 1:
			p += int64(1 + r.Intn(5))
		case 2:
			p = (p/64+1)*64 - int64(r.Intn(2)) // 63 or 64 boundary
			if p <= pos[len(pos)-1] {
				p = pos[len(pos)-1] + 1
			}
		case 3:
			p += int64(64 + r.Intn(400)) // large gap
		default:
			p += int64(1 + r.Intn(70))
		}
	}
	return pos
}

func genC12(g *Gen) {
	r := g.R
	if !g.Quick() { // positions up to the largest int32 (thorough tier: 256 MiB bitmaps)
		const maxI32 = int64(1)<<31 - 1
		// bitmaps LONGER than int32 positions reach (2^25 + 1 .. 2^26 + 3 words): every non-negative probe is inside
		for _, nw := range []int64{1 << 26, 1<<26 + 3, 1<<25 + 1, 1<<26 - 1} {
			ones := []int64{0, 5, 63, 64, 1 << 16, 1<<30 + 1, maxI32, maxI32 - 64, int64(r.Intn(1 << 30))}
			sortI64(ones)
			probes := []int64{0, 5, 6, 63, 64, 65, 1 << 16, 1<<16 + 1, 1<<30 + 1, 1 << 30, maxI32, maxI32 - 1, maxI32 - 64, -1, -64, -(1 << 31), -(1 << 31) + 5, -(1 << 30), int64(r.Intn(1 << 31))}
			g.Case("getbig", J{"bm": J{"nw": nw, "ones": ones}, "probes": probes})
		}
		for c := 0; c < 10; c++ {
			last := []int64{maxI32, maxI32 - 1, maxI32 - 63, maxI32 - 64, 1 << 30, 1<<30 - 1, maxI32 - 65, 1<<31 - 128, maxI32, 1<<30 + 64}[c]
			pos := []int64{0, 63, 64, 1 << 16, 1<<30 - 1, 1 << 30}
			for k := 0; k < 6; k++ {
				pos = append(pos, r.Int63n(last))
			}
			var asc []int64
			seen := map[int64]bool{}
			for _, p := range append(pos, last-64, last-1, last) {
				if p >= 0 && p <= last && !seen[p] {
					seen[p] = true
					asc = append(asc, p)
				}
			}
			sortI64(asc)
			hasn := c%3 == 1
			n := []int64{last + 1, last - 100, maxI32, 5}[c%4]
			if n > maxI32 {
				n = maxI32
			}
			probes := []int64{0, -1, last, last - 1, last + 1, last - 64, maxI32, maxI32 - 1, -(1 << 31), 1 << 30, 1<<30 - 1}
			var pr []int64
			for _, p := range probes {
				if p >= -(1<<31) && p <= maxI32 {
					pr = append(pr, p)
				}
			}
			g.Case("ofbig", J{"pos": asc, "hasn": hasn, "n": n, "probes": pr})
		}
	}
	// bitmaps of 2^15 and 2^16 words and their neighbours (word counts and bit counts that leave 16 bits): Get* and
	// Safe* probes inside, at and beyond the end; Of / ToArray with last positions around 2^21 and 2^22
	for _, nw := range []int64{1 << 15, 1<<15 + 1, 1<<16 - 1, 1 << 16, 1<<16 + 1, 1<<17 + 5} {
		N := nw * 64
		ones := []int64{0, 63, 64, 1 << 16, 1<<21 - 1, 1 << 21, 1<<21 + 64, 1<<22 - 1, 1 << 22, 1<<22 + 1, N - 1, N - 64, N - 65, r.Int63n(N), r.Int63n(N)}
		seen := map[int64]bool{}
		var ol, probes []int64
		for _, p := range ones {
			if p >= 0 && p < N && !seen[p] {
				seen[p] = true
				ol = append(ol, p)
			}
			probes = append(probes, p-1, p, p+1)
		}
		sortI64(ol)
		probes = append(probes, N, N+1, N+63, N+64, -1, -64, -(1 << 21), -(1 << 22), 1<<31 - 1, -(1 << 31), r.Int63n(N))
		g.Case("getbig", J{"bm": J{"nw": nw, "ones": ol}, "probes": probes})
		for _, last := range []int64{N - 1, N - 64, N} {
			asc := []int64{}
			for _, p := range ol {
				if p < last {
					asc = append(asc, p)
				}
			}
			asc = append(asc, last)
			g.Case("ofbig", J{"pos": asc, "hasn": last%2 == 0, "n": []int64{last + 1, 5, last + 65}[last%3], "probes": []int64{0, -1, last, last - 1, last + 1, last - 64, last + 64, 1<<31 - 1, -(1 << 31), 1 << 21, 1 << 22}})
		}
	}
	for i := 0; i < g.N(2500, 100000); i++ {
		pos := ascPositions(r)
		last1 := int64(0)
		if len(pos) > 0 {
			last1 = pos[len(pos)-1] + 1
		}
		hasn := r.Intn(3) != 0
		var n int64
		switch r.Intn(8) {
		case 0:
			n = -1 - int64(r.Intn(100))
		case 1:
			n = 0
		case 2:
			n = last1 - 1 - int64(r.Intn(64))
		case 3:
			n = last1
		case 4:
			n = (last1/64 + 1) * 64
		case 5:
			n = (last1/64+1)*64 + 1
		case 6:
			n = (last1/64+1)*64 - 1
		default:
			n = last1 + int64(r.Intn(300))
		}
		end := last1
		if hasn && n > end {
			end = n
		}
		nwBits := (end + 63) / 64 * 64
		probes := []int64{-1, -64, -65, nwBits, nwBits + 63, nwBits - 1, nwBits + 64, 0, 63, 64}
		for _, p := range pos {
			if r.Intn(3) == 0 || len(pos) < 8 {
				probes = append(probes, p-1, p, p+1)
			}
		}
		for c := 0; c < 4; c++ {
			probes = append(probes, int64(r.Intn(int(nwBits)+130))-65)
		}
		g.Case("of", J{"pos": pos, "hasn": hasn, "n": n, "probes": probes})
	}
	for i := 0; i < g.N(800, 30000); i++ {
		k := r.Intn(5)
		subs := make([][]int64, k)
		sizes := make([]int64, k)
		floor := int64(0) // next shifted position must exceed the previous one
		base := int64(0)
		for s := 0; s < k; s++ {
			sizes[s] = []int64{0, 1, 63, 64, 65, 100, 128, int64(r.Intn(300))}[r.Intn(8)]
			subs[s] = []int64{}
			p := int64(0)
			if base < floor {
				p = floor - base
			}
			for c := r.Intn(6); c > 0; c-- {
				p += int64(r.Intn(40))
				if p >= sizes[s] && !(s == k-1 && r.Intn(2) == 0) && r.Intn(6) != 0 {
					break
				}
				subs[s] = append(subs[s], p)
				floor = base + p + 1
				p++
			}
			base += sizes[s]
		}
		g.Case("ofmany", J{"subs": subs, "sizes": sizes})
	}
	// segments whose positions reach beyond their size into later words, followed by segments that put bits
	// back into earlier words (the shifted concatenation is then NOT ascending); every bit still fits the result
	for i := 0; i < g.N(800, 30000); i++ {
		k := 2 + r.Intn(3)
		subs := make([][]int64, k)
		sizes := make([]int64, k)
		for s := 0; s < k; s++ {
			sizes[s] = []int64{0, 1, 2, 30, 63, 64, 65, 100, 200}[r.Intn(9)]
		}
		total := int64(0)
		for _, z := range sizes {
			total += z
		}
		base := int64(0)
		for s := 0; s < k; s++ {
			subs[s] = []int64{}
			p := int64(0)
			for c := r.Intn(4); c > 0; c-- {
				p += int64(r.Intn(70))
				// a position may exceed the segment size as long as it fits the final bitmap, except in the last
				// segment, whose last position may also extend it
				if base+p >= total && s != k-1 {
					break
				}
				subs[s] = append(subs[s], p)
				p++
			}
			base += sizes[s]
		}
		g.Case("ofmany", J{"subs": subs, "sizes": sizes})
	}
	// DENSE segments (all positions but 0..3 holes), sizes of whole words and not, with positions that overshoot the
	// segment size into the next, dense, segment (the same bit listed twice; a word that is full except for one hole
	// right behind 64 consecutive listed positions)
	for i := 0; i < g.N(150, 5000); i++ {
		k := 2 + r.Intn(3)
		subs := make([][]int64, k)
		sizes := make([]int64, k)
		total := int64(0)
		for s := range sizes {
			sizes[s] = []int64{64, 64, 128, 65, 63, 100, 192}[r.Intn(7)]
			total += sizes[s]
		}
		base := int64(0)
		for s := 0; s < k; s++ {
			holes := map[int64]bool{}
			for h := r.Intn(4); h > 0; h-- {
				holes[int64(r.Intn(int(sizes[s])))] = true
			}
			if r.Intn(3) == 0 {
				holes[1] = true // the second bit of the segment: right behind an overshoot of one
			}
			subs[s] = []int64{}
			for p := int64(0); p < sizes[s]; p++ {
				if !holes[p] {
					subs[s] = append(subs[s], p)
				}
			}
			if s < k-1 && r.Intn(2) == 0 { // overshoot by 1..3 positions (or up to a word) into the next segment
				for e, n := sizes[s], 1+r.Intn(3); n > 0 && base+e < total; n-- {
					subs[s] = append(subs[s], e)
					e += 1 + int64(r.Intn(2))
					if r.Intn(6) == 0 {
						e += int64(r.Intn(64))
					}
				}
			}
			base += sizes[s]
		}
		g.Case("ofmany", J{"subs": subs, "sizes": sizes})
	}
	genBitmaps(g, g.N(300, 10000), 8, 1, func(ws []uint64) { g.Case("toarray", J{"bm": bmJ(ws)}) })
	// thousands of 1-bits, irregularly placed (the 4096th, 8192nd ... 1-bit anywhere inside a word): 70..400 words of
	// dense random words, of an irregular prefix followed by a stride, of mostly full words
	for c := 0; c < g.N(6, 150); c++ {
		nw := 70 + r.Intn(331)
		ws := make([]uint64, nw)
		for i := range ws {
			switch c % 3 {
			case 0:
				ws[i] = r.Uint64() | r.Uint64() | r.Uint64()
			case 1:
				ws[i] = 0x1084210842108421 << uint(i%5)
			default:
				ws[i] = ^uint64(0) &^ (1 << uint(r.Intn(64)))
				if r.Intn(9) == 0 {
					ws[i] = r.Uint64()
				}
			}
		}
		ws[0] = ws[0]&^0xff | uint64(r.Intn(256)) // an irregular beginning shifts every later count
		g.Case("toarray", J{"bm": bmJ(ws)})
	}
}

// ---------------------------------------------------------------- C14

func execJoin(in In, em *Emitter) {
	vals := in.U64s("vals")
	w := in.I32("w")
	o := J{}
	abn := guard(func() {
		ws := bitmap.Join(vals, w)
		o["bm"] = bmJ(ws)
		gw := make([][]int64, len(vals))
		for i := range vals {
			gw[i] = limbs(bitmap.Getw(ws, int32(i), w))
		}
		o["getw"] = gw
	})
	if abn != "" {
		o = J{}
	}
	em.Emit("join", J{"in": in.m, "out": o, "abn": abn})
	em.Calls(1 + len(vals))
}

func execSlice(in In, em *Emitter) {
	ws := in.BM("bm")
	from, to := in.I32("from"), in.I32("to")
	o := J{}
	abn := guard(func() {
		o["bm"] = bmJ(bitmap.Slice(ws, from, to))
		o["inafter"] = bmJ(ws)
	})
	if abn != "" {
		o = J{}
	}
	em.Emit("slice", J{"in": in.m, "out": o, "abn": abn})
	em.Calls(1)
}

// onesOfSparse is onesOf for huge, mostly empty bitmaps (zero words are skipped).
func onesOfSparse(words []uint64) []int64 {
	r := []int64{}
	for i, w := range words {
		if w == 0 {
			continue
		}
		for b := 0; b < 64; b++ {
			if w>>uint(b)&1 == 1 {
				r = append(r, int64(i)*64+int64(b))
			}
		}
	}
	return r
}

// execSliceBig: Slice on a bitmap of up to 2^31 bits (the int32 limit of the package's bit positions), sparse,
// with from/to near its end; same observation as "slice".
func execSliceBig(in In, em *Emitter) {
	o := J{}
	from, to := in.I32("from"), in.I32("to")
	abn := guard(func() {
		ws := in.BM("bm")
		r := bitmap.Slice(ws, from, to)
		o["bm"] = J{"nw": len(r), "ones": onesOfSparse(r)}
		o["inafter"] = J{"nw": len(ws), "ones": onesOfSparse(ws)}
	})
	if abn != "" {
		o = J{}
	}
	em.Emit("slicebig", J{"in": in.m, "out": o, "abn": abn})
	em.Calls(1)
}

// execJoinBig joins `count` values v_i = i % 65521 of width w (up to 2^31 bits in total: the int32 limit of the
// package's bit positions) and reports the number of result words, Getw at sampled indexes and sampled words.
func execJoinBig(in In, em *Emitter) {
	w := in.I32("w")
	count := in.Int("count")
	idxs := in.Is("idxs")
	o := J{}
	abn := guard(func() {
		vals := make([]uint64, count)
		for i := range vals {
			vals[i] = uint64(i % 65521)
		}
		ws := bitmap.Join(vals, w)
		gw := make([][]int64, len(idxs))
		for j, i := range idxs {
			gw[j] = limbs(bitmap.Getw(ws, int32(i), w))
		}
		var words [][]int64
		for _, i := range idxs { // the word holding element i
			k := i * int64(w) / 64
			words = append(words, wordOnes(ws[k]))
		}
		o = J{"nw": len(ws), "getw": gw, "words": words}
	})
	em.Emit("joinbig", J{"in": in.m, "out": o, "abn": abn})
	em.Calls(1 + len(idxs))
}

func genC14(g *Gen) {
	r := g.R
	if !g.Quick() { // objects at the int32 limit of bit positions: 2^31 bits = 256 MiB (thorough tier only)
		for _, w := range []int64{64, 32} {
			for _, bits := range []int64{1 << 31, 1<<31 - 64, 1 << 30} {
				count := bits / w
				idxs := []int64{0, 1, count - 1, count - 2, count / 2, 65520, 65521, 65522}
				for k := 0; k < 20; k++ {
					idxs = append(idxs, r.Int63n(count))
				}
				g.Case("joinbig", J{"w": w, "count": count, "idxs": idxs})
			}
		}
		// Slice near the end of bitmaps of 2^31 and 2^30 (+-) bits: to + 63 and the like exceed int32 there
		for _, nw := range []int64{1 << 25, 1<<25 - 1, 1 << 24, 1<<24 + 1} {
			end := nw * 64
			if end > 1<<31-1 {
				end = 1<<31 - 1 // the largest int32 position
			}
			for c := 0; c < 6; c++ {
				to := end - []int64{0, 0, 1, 62, 63, 64}[c]
				if to == end && c == 1 {
					to = end - int64(r.Intn(200))
				}
				from := to - int64(r.Intn(300))
				if c%2 == 0 {
					from = to - to%64 - 64*int64(r.Intn(3)) // word aligned
				}
				ones := map[int64]bool{0: true, 63: true, from: true, to - 1: true, nw*64 - 1: true, nw*64 - 64: true}
				for k := 0; k < 40; k++ {
					ones[from-70+int64(r.Intn(int(to-from)+140))] = true
				}
				var ol []int64
				emptyLast := c%3 == 2 // the last word of the bitmap holds no 1-bit (the range still ends in it)
				for p := range ones {
					if p >= 0 && p < nw*64 && p <= 1<<31-1 && !(emptyLast && p >= nw*64-64) {
						ol = append(ol, p)
					}
				}
				sort.Slice(ol, func(i, j int) bool { return ol[i] < ol[j] })
				g.Case("slicebig", J{"bm": J{"nw": nw, "ones": ol}, "from": from, "to": to})
				if c < 2 { // (almost) the whole bitmap: to - from + 63 exceeds int32 too
					g.Case("slicebig", J{"bm": J{"nw": nw, "ones": ol}, "from": []int64{0, 1, 63, 64}[r.Intn(4)], "to": to})
				}
			}
		}
	}
	for _, w := range []int{1, 2, 4, 8, 16, 32, 64} {
		maxLen := 3*64/w + 1
		for rep := 0; rep < g.N(120, 4000); rep++ {
			n := r.Intn(maxLen + 1)
			if rep < 6 {
				n = []int{0, 1, 64 / w, 64/w + 1, 128 / w, maxLen}[rep]
			}
			vals := make([]uint64, n)
			for i := range vals {
				var v uint64
				switch r.Intn(6) {
				case 0:
					v = 0
				case 1:
					v = 1<<uint(w) - 1
					if w == 64 {
						v = ^uint64(0)
					}
				case 2:
					if w < 64 {
						v = 1 << uint(w) // a bit just above w: must vanish
					}
				case 3:
					v = ^uint64(0)
				default:
					v = r.Uint64()
				}
				vals[i] = v
			}
			g.Case("join", J{"vals": limbsList(vals), "w": w})
		}
	}
	bnd := []int64{0, 1, 2, 31, 32, 63, 64, 65, 127, 128, 129, 191, 192, 255, 256}
	genBitmaps(g, g.N(300, 8000), 5, 0, func(ws []uint64) {
		n := int64(len(ws) * 64)
		for c := 0; c < 6; c++ {
			var from, to int64
			if r.Intn(2) == 0 {
				from, to = bnd[r.Intn(len(bnd))], bnd[r.Intn(len(bnd))]
			} else {
				from, to = r.Int63n(n+1), r.Int63n(n+1)
			}
			if from > to {
				from, to = to, from
			}
			if to > n {
				to = n
			}
			if from > to {
				from = to
			}
			g.Case("slice", J{"bm": bmJ(ws), "from": from, "to": to})
		}
	})
}

// ---------------------------------------------------------------- C12: Builder histories

func execBuilder(in In, em *Emitter) {
	var b *bitmap.Builder
	for _, op := range in.L("ops") {
		k := op.S("k")
		ev := J{}
		var abn string
		switch k {
		case "BNew":
			n := op.I32("n")
			ev["n"] = n
			abn = guard(func() { b = bitmap.NewBuilder(n) })
		case "BExtend":
			pos, size := op.I32s("pos"), op.I32("size")
			ev["pos"], ev["size"] = nums32(pos), size
			abn = guard(func() { b.Extend(pos, size) })
		case "BSet":
			pos, val := op.I32("pos"), op.I32("val")
			ev["pos"], ev["val"] = pos, val
			abn = guard(func() { b.Set(pos, val) })
		default:
			fatalf("bld: unknown op %q", k)
		}
		ev["abn"] = abn
		if b != nil {
			ev["st"] = J{"off": num(int64(b.Offset)), "nw": len(b.Words), "ones": onesOf(b.Words)}
		} else {
			ev["st"] = J{"off": 0, "nw": 0, "ones": []int64{}}
		}
		em.Emit(k, ev)
		em.Calls(1)
		if abn != "" {
			return
		}
	}
}

func genC12b(g *Gen) {
	r := g.R
	for h := 0; h < g.N(800, 30000); h++ {
		ops := []J{{"k": "BNew", "n": []int{0, 0, 1, 63, 64, 65, 1000}[r.Intn(7)]}}
		pureExt := r.Intn(3) != 0 // most histories are Extend-only with ascending shifted positions
		off := int64(0)
		for i := 2 + r.Intn(7); i > 0; i-- {
			if pureExt || r.Intn(3) != 0 {
				size := []int64{0, 1, 5, 63, 64, 65, 100, 128, int64(r.Intn(200))}[r.Intn(9)]
				pos := []int64{}
				p := int64(0)
				for c := r.Intn(6); c > 0; c-- {
					p += int64(r.Intn(50))
					if p >= size && i > 1 && pureExt {
						break // keep the shifted concatenation ascending: only the last segment overshoots
					}
					pos = append(pos, p)
					p++
				}
				if r.Intn(8) == 0 && (i == 1 || !pureExt) {
					pos = append(pos, p+size+int64(r.Intn(100))) // position >= size
				}
				ops = append(ops, J{"k": "BExtend", "pos": pos, "size": size})
				off += size
			} else {
				pos := off + int64([]int{-3, -1, 0, 1, 63, 64, 200}[r.Intn(7)])
				if pos < 0 {
					pos = 0
				}
				ops = append(ops, J{"k": "BSet", "pos": pos, "val": r.Intn(4)})
				if pos+1 > off {
					off = pos + 1
				}
			}
		}
		g.Case("bld", J{"ops": ops})
	}
	// segments with dozens of positions (32..200) at word-aligned offsets (sizes that are multiples of 64), after a
	// segment whose last position overshoots its size by one word and more: bulk paths for long aligned segments
	for h := 0; h < g.N(80, 2500); h++ {
		ops := []J{{"k": "BNew", "n": []int{0, 0, 64, 1000}[r.Intn(4)]}}
		segs := 2 + r.Intn(4)
		for i := 0; i < segs; i++ {
			size := int64(64 * (1 + r.Intn(4)))
			if r.Intn(4) == 0 {
				size += int64(r.Intn(64)) // sometimes unaligned afterwards
			}
			pos := []int64{}
			dense := r.Intn(3) != 0
			for p := int64(r.Intn(3)); p < size; p += 1 + int64(r.Intn(3)) {
				if dense || r.Intn(8) == 0 {
					pos = append(pos, p)
				}
			}
			over := i < segs-1 && r.Intn(2) == 0
			if over || (i == segs-1 && r.Intn(2) == 0) {
				pos = append(pos, size+int64(64*r.Intn(3))+int64(r.Intn(64))) // beyond the size, up to 3 words on
			}
			ops = append(ops, J{"k": "BExtend", "pos": pos, "size": size})
			if over {
				// what follows is no longer "ascending shifted positions" (the machine, not the Of equivalence, judges it)
			}
		}
		g.Case("bld", J{"ops": ops})
	}
	// growth by a thousand words and more in ONE call: Extend with sizes of 2^16 .. 2^22 bits or a far position,
	// Set far beyond the end; before and after smaller steps
	for h := 0; h < g.N(24, 600); h++ {
		ops := []J{{"k": "BNew", "n": []int{0, 64, 1000, 70000}[r.Intn(4)]}}
		big := func() int64 {
			return []int64{65536, 65537, 70000, 1 << 17, 1<<16 + 64*int64(r.Intn(3000)), 1 << 20, 1<<22 + 7, 65535, 64 * 1023, 64 * 1024, 64*1025 + 1}[r.Intn(11)]
		}
		if r.Intn(2) == 0 {
			ops = append(ops, J{"k": "BExtend", "pos": []int64{0, 2, 5}, "size": int64(6 + r.Intn(100))})
		}
		for i := 1 + r.Intn(3); i > 0; i-- {
			switch r.Intn(4) {
			case 0:
				ops = append(ops, J{"k": "BExtend", "pos": []int64{3}, "size": big()})
			case 1:
				b := big()
				ops = append(ops, J{"k": "BExtend", "pos": []int64{0, b - 1}, "size": b})
			case 2:
				ops = append(ops, J{"k": "BExtend", "pos": []int64{1, big() + 5}, "size": int64(2 + r.Intn(60))}) // far position, small size (last segment)
				i = 0
			default:
				ops = append(ops, J{"k": "BSet", "pos": big(), "val": 1})
			}
		}
		ops = append(ops, J{"k": "BSet", "pos": int64(r.Intn(100)), "val": r.Intn(2)})
		g.Case("bld", J{"ops": ops})
	}
}
