package main

// C18: iohelper.SectionWriter histories over a scripted underlying io.WriterAt.

import (
	"errors"
	"io"

	"github.com/openacid/low/iohelper"
)

func init() {
	props["C18"] = &Prop{
		Gen:  genC18,
		Exec: map[string]func(in In, em *Emitter){"sw": execSW},
		Trivial: func(k string, in In) bool {
			return len(in.L("ops")) < 2
		},
	}
}

var errInj = errors.New("injected underlying failure")

// scriptW is the environment: it accepts `acc` bytes and fails when `fail` is set, and logs every call.
// A request may reach it in several pieces (calls that offer bytes): the failure is injected into piece number
// failAt (0 = the first one, which is the only one with today's code), the other pieces are accepted whole.
type scriptW struct {
	acc    int
	fail   bool
	failAt int
	pieces int
	logged int
	calls  []J
}

// buffers of more than 1 MiB are logged by their length only (they hold zeros)
const logBytesUpTo = 1 << 20

func (w *scriptW) WriteAt(p []byte, off int64) (int, error) {
	k := len(p)
	var err error
	failed := false
	if len(p) > 0 { // a call that offers no bytes is never failed: whether it is made at all is left open
		if w.fail && w.pieces == w.failAt {
			if w.acc < k {
				k = w.acc
			}
			err = errInj
			failed = true
		}
		w.pieces++
	}
	// A request passed on in very many pieces: from the 64th logged piece (or 1 MiB) on, a piece that continues the
	// previous one exactly (adjacent, the previous one accepted whole and without error) is merged into it and only
	// lengths are kept. This loses nothing the trace specification looks at (SWEnv!PiecesOK holds by construction).
	if n := len(w.calls); n > 0 && len(p) > 0 && (n >= 64 || w.logged > logBytesUpTo) {
		last := w.calls[n-1]
		ll, isL := last["n"].(int)
		if !isL {
			ll = len(last["p"].([]int64))
		}
		if !last["e"].(bool) && last["k"].(int) == ll && ll > 0 && last["off"].(int64)+int64(ll) == off {
			if !isL {
				last["p"] = []int64{}
			}
			last["n"], last["k"], last["e"] = ll+len(p), ll+k, failed
			return k, err
		}
	}
	if len(p) > logBytesUpTo {
		w.calls = append(w.calls, J{"off": off, "p": []int64{}, "n": len(p), "k": k, "e": failed})
	} else {
		w.calls = append(w.calls, J{"off": off, "p": bytesJ(p), "k": k, "e": failed})
		w.logged += len(p)
	}
	return k, err
}

// bigZeros returns n zero bytes (n up to a little over 2^30); the pages are never touched, so this costs address
// space only.
var bigBuf []byte

func bigZeros(n int) []byte {
	if cap(bigBuf) < n {
		bigBuf = make([]byte, n)
	}
	return bigBuf[:n]
}

func errClass(err error) string {
	switch {
	case err == nil:
		return "nil"
	case err == io.ErrShortWrite || errors.Is(err, io.ErrShortWrite):
		return "ShortWrite"
	case err == errInj || errors.Is(err, errInj):
		return "inj"
	case err.Error() == "Seek: invalid whence":
		return "Whence"
	case err.Error() == "Seek: invalid offset":
		return "Offset"
	}
	s := err.Error()
	if len(s) > 60 {
		s = s[:60]
	}
	return "other:" + s
}

type swAll interface {
	io.Writer
	io.WriterAt
	io.Seeker
}

func execSW(in In, em *Emitter) {
	under := &scriptW{}
	var w io.Writer
	var full swAll
	var sized interface{ Size() int64 }
	// All offsets are logged relative to the section start (the machine is translation invariant), so that
	// sections anywhere in the int64 range, including right below MaxInt64, stay inside TLC's integers.
	var base int64
	rel := func(x int64) int64 { return num(x - base) }
	const maxInt64 = int64(^uint64(0) >> 1)
	// "End frame" histories exercise the far end of a section that is longer than TLC's integers (AtToWriter from
	// a small offset, NewSectionWriter with n up to MaxInt64): everything is logged as if the section started
	// 2^30 bytes before its end (shift = real size - 2^30).  The machine is translation invariant and the
	// history never touches a position within 2^29 of the pretended start, so the pretended and the real
	// section behave alike; the real cursor starts far below, therefore the first operation is an absolute Seek.
	var endFrame, needAbsSeek bool
	var shift int64
	const far = int64(1) << 30
	for _, op := range in.L("ops") {
		k := op.S("k")
		ek := k
		ev := J{}
		if needAbsSeek && !(k == "Seek" && (op.Int("w") == 0 || op.Int("w") == 2)) {
			fatalf("sw: an end-frame history must start with an absolute Seek")
		}
		under.calls = nil
		under.acc, under.fail, under.failAt, under.pieces, under.logged = 0, false, 0, 0, 0
		if op.has("acc") {
			under.acc, under.fail = op.Int("acc"), op.Bool("fail")
		}
		if op.has("failAt") {
			under.failAt = op.Int("failAt")
		}
		var n int64
		var err error
		var abn string
		switch k {
		case "WriteL": // a buffer of n zero bytes, n beyond what can be written down (2^30 and more)
			p := bigZeros(op.Int("n"))
			ev["n"] = len(p)
			abn = guard(func() { var m int; m, err = w.Write(p); n = int64(m) })
		case "WriteAtL":
			if full == nil {
				continue
			}
			p, off := bigZeros(op.Int("n")), op.I("off")
			ev["n"], ev["off"] = len(p), off
			abn = guard(func() { var m int; m, err = full.WriteAt(p, off); n = int64(m) })
		case "New":
			b, sz := op.I("base"), op.I("n")
			base = b
			ev["n"] = sz
			if op.has("ef") {
				if sz < far {
					fatalf("sw: end frame needs a section of at least 2^30 bytes")
				}
				endFrame, needAbsSeek, shift, ek = true, true, sz-far, "NewEnd"
				base = b + shift
				ev["n"] = far
			}
			abn = guard(func() {
				s := iohelper.NewSectionWriter(under, b, sz)
				w, full, sized = s, s, s
			})
		case "NewAt":
			b := op.I("base")
			base = b
			room := maxInt64 - b // AtToWriter's section ends at MaxInt64
			if room > 1<<30 {
				room = 1 << 30
			}
			ev["room"] = room
			if op.has("ef") {
				if maxInt64-b < far {
					fatalf("sw: end frame needs a section of at least 2^30 bytes")
				}
				endFrame, needAbsSeek, shift, ek = true, true, maxInt64-b-far, "NewEnd"
				base = b + shift
				ev["n"] = far
			}
			abn = guard(func() {
				w = iohelper.AtToWriter(under, b)
				full, _ = w.(swAll)
				sized = nil
			})
		case "Write":
			p := op.Bs("p")
			ev["p"] = bytesJ(p)
			abn = guard(func() { var m int; m, err = w.Write(p); n = int64(m) })
		case "WriteAt":
			if full == nil {
				continue
			}
			p, off := op.Bs("p"), op.I("off")
			// a relative offset beyond 2^30 lies beyond the end of every bounded section the generator builds
			// (length < 2^29): it is logged as 2^30, which says exactly that, and stays inside TLC's integers
			loff := off - shift
			if endFrame && loff < 1<<29 {
				fatalf("sw: end-frame WriteAt offset too far from the end")
			}
			if loff > 1<<30 {
				loff = 1 << 30
			}
			ev["p"], ev["off"] = bytesJ(p), loff
			abn = guard(func() { var m int; m, err = full.WriteAt(p, off); n = int64(m) })
		case "Seek":
			if full == nil {
				continue
			}
			off, wh := op.I("off"), op.Int("w")
			ev["off"], ev["w"] = off, wh
			if endFrame {
				if wh == 0 {
					ev["off"] = off - shift
				}
				if (wh == 0 && off-shift < 1<<29) || (wh == 2 && off < -(1<<29)) || (wh == 1 && (off < -(1<<28) || off > 1<<28)) {
					fatalf("sw: end-frame Seek too far from the end")
				}
				needAbsSeek = false
			}
			abn = guard(func() { n, err = full.Seek(off, wh) })
			if endFrame && err == nil {
				n -= shift // positions relative to the pretended start
			}
		case "Size":
			if sized == nil {
				continue
			}
			abn = guard(func() { n = sized.Size() })
			n -= shift
		default:
			fatalf("sw: unknown op %q", k)
		}
		ev["abn"] = abn
		ev["rn"] = num(n)
		ev["err"] = errClass(err)
		calls := under.calls
		if calls == nil {
			calls = []J{}
		}
		for _, c := range calls {
			c["off"] = rel(c["off"].(int64))
		}
		ev["under"] = calls
		if c, ok := swCursor(w); ok && ek != "NewEnd" {
			ev["cur"] = rel(c) // the cursor itself, through the verif hook (besides the Seek probes)
		} else {
			ev["cur"] = -1
		}
		em.Emit(ek, ev)
		em.Calls(1)
		if abn != "" {
			return
		}
		if c, ok := swCursor(w); ok && endFrame && ek != "NewEnd" {
			if c-base < 1<<29 || c-base > far+1<<20 {
				return // too far from the end for the pretended frame
			}
		} else if ok && !endFrame && (c-base > 1<<29 || c-base < -(1<<29)) {
			return // the history leaves the range the trace specification models (|offsets| < 2^30): end it here
		}
	}
}

// ---- generation

func genC18(g *Gen) {
	r := g.R
	bases := []int64{0, 1, 7, 4096, 1 << 20}
	sizes := []int64{0, 1, 2, 10, 64, 1000}
	buf := func(n int) []int64 {
		b := make([]int64, n)
		for i := range b {
			b[i] = int64(r.Intn(256))
		}
		return b
	}
	// one request of 2^30 bytes and more (zeros, logged by length): sections that hold it, end inside it, end exactly
	// with it; the underlying writer accepts it, fails at its start, inside it, at its end (and, should the request
	// reach it in pieces, in the second piece)
	const gib = int64(1) << 30
	for c := 0; c < g.N(24, 200); c++ {
		N := []int64{gib + 4096, gib + 1, gib, gib + 1<<20, gib - 1}[c%5]
		sec := []int64{N + 10, N, N - 1, gib, gib + 1, 1<<31 - 2, N - 4097}[r.Intn(7)]
		ops := []J{{"k": "New", "base": []int64{0, 4096, 1 << 40}[r.Intn(3)], "n": sec}}
		pre := int64(0)
		if r.Intn(2) == 0 {
			l := r.Intn(9)
			ops = append(ops, J{"k": "Write", "p": buf(l), "acc": 0, "fail": false})
			pre = int64(l)
		}
		op := J{"k": "WriteL", "n": N}
		if c%3 == 1 {
			op = J{"k": "WriteAtL", "n": N, "off": []int64{0, 1, 5, 4096}[r.Intn(4)]}
		}
		_ = pre
		switch r.Intn(5) {
		case 0:
			op["acc"], op["fail"] = 0, false
		case 1:
			op["acc"], op["fail"] = []int64{0, 1, 100, 4096}[r.Intn(4)], true
		case 2:
			op["acc"], op["fail"] = gib-int64(r.Intn(3)), true
		case 3:
			op["acc"], op["fail"], op["failAt"] = r.Intn(5000), true, 1
		default:
			op["acc"], op["fail"] = N-int64(r.Intn(2)), true
		}
		ops = append(ops, op)
		g.Case("sw", J{"ops": ops})
	}
	nh := g.N(1500, 40000)
	for h := 0; h < nh; h++ {
		if r.Intn(8) == 0 {
			genC18End(g, buf)
			continue
		}
		base := bases[r.Intn(len(bases))]
		size := sizes[r.Intn(len(sizes))]
		at := r.Intn(5) == 0
		if r.Intn(6) == 0 { // a section right below MaxInt64: base + n must not overflow
			const maxInt64 = int64(^uint64(0) >> 1)
			gap := []int64{0, 1, 10, 50, 64, 100, 1000}[r.Intn(7)]
			base = maxInt64 - gap - int64(r.Intn(3))*size
			if base < 0 || size > maxInt64-base {
				size = maxInt64 - base
			}
			if size > 1000 {
				size = 1000
			}
			if at {
				size = maxInt64 - base // AtToWriter ends at MaxInt64
				if size > 1<<20 {
					size = 1 << 20
				}
			}
		}
		var ops []J
		if at {
			ops = append(ops, J{"k": "NewAt", "base": base})
			if base < 1<<40 {
				// only steers the generated offsets: 20 seeks of this size stay far below the 2^30 that the
				// trace specification uses for "no practical end"
				size = 1 << 20
			}
		} else {
			ops = append(ops, J{"k": "New", "base": base, "n": size})
		}
		// generator-side cursor estimate only steers inputs towards the limit; it is not compared with anything
		cur := int64(0)
		n := 3 + r.Intn(g.N(12, 20))
		for i := 0; i < n; i++ {
			room := size - cur
			pickLen := func() int {
				switch r.Intn(7) {
				case 0:
					return 0
				case 1:
					if room >= 0 && room <= 70 {
						return int(room) // ends exactly at the limit
					}
				case 2:
					if room >= 0 && room < 70 {
						return int(room) + 1 + r.Intn(3) // crosses it
					}
				case 3:
					if room >= 1 && room <= 70 {
						return int(room) - 1
					}
				}
				return r.Intn(12)
			}
			env := func(op J, l int) J {
				if r.Intn(5) == 0 { // the underlying writer fails after accepting some bytes
					op["acc"] = r.Intn(l + 2)
					op["fail"] = true
				} else {
					op["acc"] = 0
					op["fail"] = false
				}
				return op
			}
			switch x := r.Intn(100); {
			case x < 40:
				l := pickLen()
				op := env(J{"k": "Write", "p": buf(l)}, l)
				ops = append(ops, op)
				if op["fail"] == false {
					cur += int64(l)
					if cur > size && size >= 0 {
						cur = size
					}
				}
			case x < 60:
				var off int64
				switch r.Intn(6) {
				case 0:
					off = size
				case 1:
					off = size - 1
				case 2:
					off = size + 1 + int64(r.Intn(5))
				case 3:
					off = 0
				default:
					off = int64(r.Intn(int(min64(size, 80)) + 3))
				}
				if at {
					off = int64(r.Intn(200))
				} else if r.Intn(8) == 0 { // far beyond the end: off + base wraps around int64 when base > 0
					const maxInt64 = int64(^uint64(0) >> 1)
					off = []int64{maxInt64, maxInt64 - 1, maxInt64 - base, maxInt64 - base + 1, maxInt64 - base - 1, maxInt64 - base + size,
						1 << 62, 1 << 32, 1 << 31, 1<<31 - 1, maxInt64 - base + int64(r.Intn(100))}[r.Intn(11)]
					if off < 0 {
						off = maxInt64
					}
				}
				l := r.Intn(12)
				if d := size - off; d >= 0 && d < 60 && r.Intn(2) == 0 {
					l = int(d) + r.Intn(3) - 1
					if l < 0 {
						l = 0
					}
				}
				ops = append(ops, env(J{"k": "WriteAt", "p": buf(l), "off": off}, l))
			case x < 85:
				wh := []int{0, 1, 2, 0, 1, 2, 3, -1, 7}[r.Intn(9)]
				if at && wh == 2 {
					wh = 1 // SeekEnd on an unbounded section overflows int64 by construction: out of scope
				}
				var off int64
				switch r.Intn(6) {
				case 0:
					off = 0
				case 1:
					off = -int64(r.Intn(12))
				case 2:
					off = size
				case 3:
					off = -base - int64(r.Intn(3)) + 1 // around absolute 0: before the section start when base > 0
					if base > 1<<28 {
						off = -int64(r.Intn(5)) - cur // (inputs must stay inside TLC's integers)
					}
				case 4:
					off = -cur + int64(r.Intn(3)) - 1
				default:
					off = int64(r.Intn(int(min64(size, 100))+5)) - 2
				}
				if base > 1<<40 {
					// right below MaxInt64 a seek target must stay representable: positions beyond MaxInt64 do not
					// exist, so the property says nothing about them
					room := int64(^uint64(0)>>1) - base
					if wh == 0 && off > room {
						off = room - int64(r.Intn(2))
					}
					if wh != 0 && off > 0 {
						off = -off
					}
				}
				ops = append(ops, J{"k": "Seek", "off": off, "w": wh})
				switch wh {
				case 0:
					if off >= 0 {
						cur = off
					}
				case 1:
					if cur+off >= 0 {
						cur += off
					}
				case 2:
					if size+off >= 0 {
						cur = size + off
					}
				}
			case x < 90:
				ops = append(ops, J{"k": "Size"})
			default:
				ops = append(ops, J{"k": "Seek", "off": 0, "w": 1}) // cursor probe
			}
			if r.Intn(3) == 0 {
				ops = append(ops, J{"k": "Seek", "off": 0, "w": 1})
			}
		}
		ops = append(ops, J{"k": "Seek", "off": 0, "w": 1})
		g.Case("sw", J{"ops": ops})
	}
}

// genC18End: a history at the far end of a section longer than 2^30 bytes (see execSW, "end frame").
func genC18End(g *Gen, buf func(int) []int64) {
	r := g.R
	const maxInt64 = int64(^uint64(0) >> 1)
	var base, S int64
	var ops []J
	at := r.Intn(2) == 0
	if at {
		base = []int64{0, 3, 4096, 1 << 40, maxInt64 - 1<<30, maxInt64 - 1<<31, 1}[r.Intn(7)]
		S = maxInt64 - base
		ops = append(ops, J{"k": "NewAt", "base": base, "ef": true})
	} else {
		base = []int64{0, 1, 7, 1 << 20}[r.Intn(4)]
		S = []int64{maxInt64 - base, 1 << 62, 1 << 40, 1 << 31, 1 << 30, 1<<32 + 5, 1<<31 - 1}[r.Intn(7)]
		ops = append(ops, J{"k": "New", "base": base, "n": S, "ef": true})
	}
	top := base+S == maxInt64 // positions beyond the end do not exist
	d0 := int64(r.Intn(100))
	if r.Intn(2) == 0 {
		ops = append(ops, J{"k": "Seek", "off": -d0, "w": 2})
	} else {
		ops = append(ops, J{"k": "Seek", "off": S - d0, "w": 0})
	}
	room := d0 // bytes between the (estimated) cursor and the end; only steers the inputs
	env := func(op J, l int) J {
		if r.Intn(5) == 0 {
			op["acc"] = r.Intn(l + 2)
			op["fail"] = true
		} else {
			op["acc"] = 0
			op["fail"] = false
		}
		return op
	}
	n := 3 + r.Intn(g.N(12, 20))
	for i := 0; i < n; i++ {
		switch x := r.Intn(100); {
		case x < 30:
			l := r.Intn(12)
			switch r.Intn(5) {
			case 0:
				if room >= 0 && room <= 70 {
					l = int(room)
				}
			case 1:
				if room >= 0 && room <= 70 {
					l = int(room) + 1 + r.Intn(3)
				}
			case 2:
				if room >= 1 && room <= 70 {
					l = int(room) - 1
				}
			}
			op := env(J{"k": "Write", "p": buf(l)}, l)
			ops = append(ops, op)
			if op["fail"] == false {
				room -= int64(l)
				if room < 0 {
					room = 0
				}
			}
		case x < 60:
			d := int64(r.Intn(84)) - 3 // distance of the offset from the end; negative: beyond it
			if r.Intn(6) == 0 {
				d = []int64{0, 1, 2, 5, -1, S - maxInt64}[r.Intn(6)]
			}
			l := r.Intn(12)
			if d >= 0 && r.Intn(3) > 0 {
				l = int(d) + r.Intn(5) - 2 // ends around the end of the section
				if l < 0 {
					l = 0
				}
			}
			ops = append(ops, env(J{"k": "WriteAt", "p": buf(l), "off": S - d}, l))
		case x < 85:
			wh := []int{0, 1, 2, 0, 1, 2, 3, -1}[r.Intn(8)]
			var off int64
			switch wh {
			case 0:
				d := int64(r.Intn(100))
				if !top && r.Intn(4) == 0 {
					d = -int64(r.Intn(5))
				}
				off = S - d
				room = d
			case 2:
				d := int64(r.Intn(100))
				if !top && r.Intn(4) == 0 {
					d = -int64(r.Intn(5))
				}
				off = -d
				room = d
			case 1:
				off = int64(r.Intn(24)) - 12
				if top && off > 0 {
					off = -off // the estimate of the cursor is not exact and positions beyond MaxInt64 do not exist
				}
				room -= off
			default:
				off = int64(r.Intn(5))
			}
			ops = append(ops, J{"k": "Seek", "off": off, "w": wh})
		case x < 90:
			ops = append(ops, J{"k": "Size"})
		default:
			ops = append(ops, J{"k": "Seek", "off": 0, "w": 1})
		}
		if r.Intn(3) == 0 {
			ops = append(ops, J{"k": "Seek", "off": 0, "w": 1})
		}
	}
	ops = append(ops, J{"k": "Seek", "off": 0, "w": 1})
	g.Case("sw", J{"ops": ops})
}

func min64(a, b int64) int64 {
	if a < b {
		return a
	}
	return b
}
