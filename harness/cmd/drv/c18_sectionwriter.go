package main

// C18: iohelper.SectionWriter histories over a scripted underlying io.WriterAt.

import (
	"errors"
	"io"

	"github.com/openacid/low/iohelper"
)

func init() {
	props["C18"] = &Prop{
		Gen:  genC18,
		Exec: map[string]func(in In, em *Emitter){"sw": execSW},
		Trivial: func(k string, in In) bool {
			return len(in.L("ops")) < 2
		},
	}
}

var errInj = errors.New("injected underlying failure")

// scriptW is the environment: it accepts `acc` bytes and fails when `fail` is set, and logs every call.
type scriptW struct {
	acc   int
	fail  bool
	calls []J
}

func (w *scriptW) WriteAt(p []byte, off int64) (int, error) {
	k := len(p)
	var err error
	if w.fail && len(p) > 0 { // a call that offers no bytes is never failed: whether it is made at all is left open
		if w.acc < k {
			k = w.acc
		}
		err = errInj
	}
	w.calls = append(w.calls, J{"off": off, "p": bytesJ(p), "k": k, "e": w.fail && len(p) > 0})
	return k, err
}

func errClass(err error) string {
	switch {
	case err == nil:
		return "nil"
	case err == io.ErrShortWrite || errors.Is(err, io.ErrShortWrite):
		return "ShortWrite"
	case err == errInj || errors.Is(err, errInj):
		return "inj"
	case err.Error() == "Seek: invalid whence":
		return "Whence"
	case err.Error() == "Seek: invalid offset":
		return "Offset"
	}
	s := err.Error()
	if len(s) > 60 {
		s = s[:60]
	}
	return "other:" + s
}

type swAll interface {
	io.Writer
	io.WriterAt
	io.Seeker
}

func execSW(in In, em *Emitter) {
	under := &scriptW{}
	var w io.Writer
	var full swAll
	var sized interface{ Size() int64 }
	// All offsets are logged relative to the section start (the machine is translation invariant), so that
	// sections anywhere in the int64 range, including right below MaxInt64, stay inside TLC's integers.
	var base int64
	rel := func(x int64) int64 { return num(x - base) }
	const maxInt64 = int64(^uint64(0) >> 1)
	for _, op := range in.L("ops") {
		k := op.S("k")
		ev := J{}
		under.calls = nil
		under.acc, under.fail = 0, false
		if op.has("acc") {
			under.acc, under.fail = op.Int("acc"), op.Bool("fail")
		}
		var n int64
		var err error
		var abn string
		switch k {
		case "New":
			b, sz := op.I("base"), op.I("n")
			base = b
			ev["n"] = sz
			abn = guard(func() {
				s := iohelper.NewSectionWriter(under, b, sz)
				w, full, sized = s, s, s
			})
		case "NewAt":
			b := op.I("base")
			base = b
			room := maxInt64 - b // AtToWriter's section ends at MaxInt64
			if room > 1<<30 {
				room = 1 << 30
			}
			ev["room"] = room
			abn = guard(func() {
				w = iohelper.AtToWriter(under, b)
				full, _ = w.(swAll)
				sized = nil
			})
		case "Write":
			p := op.Bs("p")
			ev["p"] = bytesJ(p)
			abn = guard(func() { var m int; m, err = w.Write(p); n = int64(m) })
		case "WriteAt":
			if full == nil {
				continue
			}
			p, off := op.Bs("p"), op.I("off")
			// a relative offset beyond 2^30 lies beyond the end of every bounded section the generator builds
			// (length < 2^29): it is logged as 2^30, which says exactly that, and stays inside TLC's integers
			loff := off
			if loff > 1<<30 {
				loff = 1 << 30
			}
			ev["p"], ev["off"] = bytesJ(p), loff
			abn = guard(func() { var m int; m, err = full.WriteAt(p, off); n = int64(m) })
		case "Seek":
			if full == nil {
				continue
			}
			off, wh := op.I("off"), op.Int("w")
			ev["off"], ev["w"] = off, wh
			abn = guard(func() { n, err = full.Seek(off, wh) })
		case "Size":
			if sized == nil {
				continue
			}
			abn = guard(func() { n = sized.Size() })
		default:
			fatalf("sw: unknown op %q", k)
		}
		ev["abn"] = abn
		ev["rn"] = num(n)
		ev["err"] = errClass(err)
		calls := under.calls
		if calls == nil {
			calls = []J{}
		}
		for _, c := range calls {
			c["off"] = rel(c["off"].(int64))
		}
		ev["under"] = calls
		if c, ok := swCursor(w); ok {
			ev["cur"] = rel(c) // the cursor itself, through the verif hook (besides the Seek probes)
		} else {
			ev["cur"] = -1
		}
		em.Emit(k, ev)
		em.Calls(1)
		if abn != "" {
			return
		}
		if c, ok := swCursor(w); ok && (c-base > 1<<29 || c-base < -(1<<29)) {
			return // the history leaves the range the trace specification models (|offsets| < 2^30): end it here
		}
	}
}

// ---- generation

func genC18(g *Gen) {
	r := g.R
	bases := []int64{0, 1, 7, 4096, 1 << 20}
	sizes := []int64{0, 1, 2, 10, 64, 1000}
	buf := func(n int) []int64 {
		b := make([]int64, n)
		for i := range b {
			b[i] = int64(r.Intn(256))
		}
		return b
	}
	nh := g.N(1500, 40000)
	for h := 0; h < nh; h++ {
		base := bases[r.Intn(len(bases))]
		size := sizes[r.Intn(len(sizes))]
		at := r.Intn(5) == 0
		if r.Intn(6) == 0 { // a section right below MaxInt64: base + n must not overflow
			const maxInt64 = int64(^uint64(0) >> 1)
			gap := []int64{0, 1, 10, 50, 64, 100, 1000}[r.Intn(7)]
			base = maxInt64 - gap - int64(r.Intn(3))*size
			if base < 0 || size > maxInt64-base {
				size = maxInt64 - base
			}
			if size > 1000 {
				size = 1000
			}
			if at {
				size = maxInt64 - base // AtToWriter ends at MaxInt64
				if size > 1<<20 {
					size = 1 << 20
				}
			}
		}
		var ops []J
		if at {
			ops = append(ops, J{"k": "NewAt", "base": base})
			if base < 1<<40 {
				// only steers the generated offsets: 20 seeks of this size stay far below the 2^30 that the
				// trace specification uses for "no practical end"
				size = 1 << 20
			}
		} else {
			ops = append(ops, J{"k": "New", "base": base, "n": size})
		}
		// generator-side cursor estimate only steers inputs towards the limit; it is not compared with anything
		cur := int64(0)
		n := 3 + r.Intn(g.N(12, 20))
		for i := 0; i < n; i++ {
			room := size - cur
			pickLen := func() int {
				switch r.Intn(7) {
				case 0:
					return 0
				case 1:
					if room >= 0 && room <= 70 {
						return int(room) // ends exactly at the limit
					}
				case 2:
					if room >= 0 && room < 70 {
						return int(room) + 1 + r.Intn(3) // crosses it
					}
				case 3:
					if room >= 1 && room <= 70 {
						return int(room) - 1
					}
				}
				return r.Intn(12)
			}
			env := func(op J, l int) J {
				if r.Intn(5) == 0 { // the underlying writer fails after accepting some bytes
					op["acc"] = r.Intn(l + 2)
					op["fail"] = true
				} else {
					op["acc"] = 0
					op["fail"] = false
				}
				return op
			}
			switch x := r.Intn(100); {
			case x < 40:
				l := pickLen()
				op := env(J{"k": "Write", "p": buf(l)}, l)
				ops = append(ops, op)
				if op["fail"] == false {
					cur += int64(l)
					if cur > size && size >= 0 {
						cur = size
					}
				}
			case x < 60:
				var off int64
				switch r.Intn(6) {
				case 0:
					off = size
				case 1:
					off = size - 1
				case 2:
					off = size + 1 + int64(r.Intn(5))
				case 3:
					off = 0
				default:
					off = int64(r.Intn(int(min64(size, 80)) + 3))
				}
				if at {
					off = int64(r.Intn(200))
				} else if r.Intn(8) == 0 { // far beyond the end: off + base wraps around int64 when base > 0
					const maxInt64 = int64(^uint64(0) >> 1)
					off = []int64{maxInt64, maxInt64 - 1, maxInt64 - base, maxInt64 - base + 1, maxInt64 - base - 1, maxInt64 - base + size,
						1 << 62, 1 << 32, 1 << 31, 1<<31 - 1, maxInt64 - base + int64(r.Intn(100))}[r.Intn(11)]
					if off < 0 {
						off = maxInt64
					}
				}
				l := r.Intn(12)
				if d := size - off; d >= 0 && d < 60 && r.Intn(2) == 0 {
					l = int(d) + r.Intn(3) - 1
					if l < 0 {
						l = 0
					}
				}
				ops = append(ops, env(J{"k": "WriteAt", "p": buf(l), "off": off}, l))
			case x < 85:
				wh := []int{0, 1, 2, 0, 1, 2, 3, -1, 7}[r.Intn(9)]
				if at && wh == 2 {
					wh = 1 // SeekEnd on an unbounded section overflows int64 by construction: out of scope
				}
				var off int64
				switch r.Intn(6) {
				case 0:
					off = 0
				case 1:
					off = -int64(r.Intn(12))
				case 2:
					off = size
				case 3:
					off = -base - int64(r.Intn(3)) + 1 // around absolute 0: before the section start when base > 0
					if base > 1<<28 {
						off = -int64(r.Intn(5)) - cur // (inputs must stay inside TLC's integers)
					}
				case 4:
					off = -cur + int64(r.Intn(3)) - 1
				default:
					off = int64(r.Intn(int(min64(size, 100))+5)) - 2
				}
				if base > 1<<40 {
					// right below MaxInt64 a seek target must stay representable: positions beyond MaxInt64 do not
					// exist, so the property says nothing about them
					room := int64(^uint64(0)>>1) - base
					if wh == 0 && off > room {
						off = room - int64(r.Intn(2))
					}
					if wh != 0 && off > 0 {
						off = -off
					}
				}
				ops = append(ops, J{"k": "Seek", "off": off, "w": wh})
				switch wh {
				case 0:
					if off >= 0 {
						cur = off
					}
				case 1:
					if cur+off >= 0 {
						cur += off
					}
				case 2:
					if size+off >= 0 {
						cur = size + off
					}
				}
			case x < 90:
				ops = append(ops, J{"k": "Size"})
			default:
				ops = append(ops, J{"k": "Seek", "off": 0, "w": 1}) // cursor probe
			}
			if r.Intn(3) == 0 {
				ops = append(ops, J{"k": "Seek", "off": 0, "w": 1})
			}
		}
		ops = append(ops, J{"k": "Seek", "off": 0, "w": 1})
		g.Case("sw", J{"ops": ops})
	}
}

func min64(a, b int64) int64 {
	if a < b {
		return a
	}
	return b
}
