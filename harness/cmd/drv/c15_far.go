package main

// C15 for positions 2^31 bits and more beyond the Offset (thorough tier: the stored tail is 256 MiB .. 512 MiB).
// Positions are logged as pairs [q, r] with idx - o0 = q * 2^20 + r (they do not fit TLC's integers);
// judged by Trace_TailBitmapFar. No position of these histories lies in the head word, so Offset never moves.

import (
	"github.com/openacid/low/bitmap"
)

func init() {
	props["C15f"] = &Prop{
		Gen:  genC15f,
		Exec: map[string]func(in In, em *Emitter){"tbfar": execTBFar},
		Trivial: func(k string, in In) bool {
			return len(in.L("ops")) < 2
		},
	}
}

const farChunk = int64(1) << 20

func farPair(d int64) []int64 { return []int64{d / farChunk, d % farChunk} }

func execTBFar(in In, em *Emitter) {
	var tb *bitmap.TailBitmap
	var o0 int64
	st := func() J { return J{"off": num(tb.Offset - o0), "nw": len(tb.Words)} }
	for _, op := range in.L("ops") {
		k := op.S("k")
		ev := J{}
		var abn string
		switch k {
		case "FarNew":
			o0 = op.I("o0")
			ev["omod"] = o0 % 64
			abn = guard(func() { tb = bitmap.NewTailBitmap(o0) })
		case "FarSet":
			d := op.I("d")
			ev["p"] = farPair(d)
			abn = guard(func() { tb.Set(o0 + d) })
		case "FarGet1":
			d := op.I("d")
			ev["p"] = farPair(d)
			var r uint64
			abn = guard(func() { r = tb.Get1(o0 + d) })
			ev["r"] = wordOnes(r)
		case "FarGet":
			d := op.I("d")
			ev["p"] = farPair(d)
			var r uint64
			abn = guard(func() { r = tb.Get(o0 + d) })
			ev["r"] = wordOnes(r)
		default:
			fatalf("tbfar: unknown op %q", k)
		}
		ev["abn"] = abn
		if abn == "" {
			ev["st"] = st()
		} else {
			ev["st"] = J{}
		}
		em.Emit(k, ev)
		em.Calls(1)
		if abn != "" {
			return
		}
	}
}

func genC15f(g *Gen) {
	if g.Quick() {
		return
	}
	r := g.R
	for c := 0; c < 6; c++ {
		o0 := []int64{0, 64, 1 << 40, 1<<62 - 1<<40, 0, 4096}[c]
		far := []int64{1<<31 + 5, 1<<31 - 1, 1 << 31, 1<<32 + 70, 1<<32 - 1, 1<<31 + 1<<30 + 63}[c]
		ops := []J{{"k": "FarNew", "o0": o0}}
		near := []int64{64 + int64(r.Intn(200)), 1<<16 + 3}
		for _, d := range near {
			ops = append(ops, J{"k": "FarSet", "d": d})
		}
		ops = append(ops, J{"k": "FarSet", "d": far})
		more := far - 64*int64(1+r.Intn(1000)) - int64(r.Intn(64))
		ops = append(ops, J{"k": "FarSet", "d": more})
		// probes: the set positions and their neighbours, and where a distance narrowed to 32 bits would land
		for _, d := range []int64{far, far - 1, far + 1 - 2*(far%64/63), more, more + 1, near[0], near[0] + 1, near[1],
			far - 1<<31, far - 1<<31 + 64, far - 1<<32, far&(1<<31-1) + 64, far&(1<<32-1) + 64, 1 << 31, 1<<31 - 64, 1<<30 + 5} {
			if d < 64 || d > far+63-(far%64) { // inside the stored words, beyond the head word
				continue
			}
			ops = append(ops, J{"k": "FarGet1", "d": d}, J{"k": "FarGet", "d": d})
		}
		g.Case("tbfar", J{"ops": ops})
	}
}
