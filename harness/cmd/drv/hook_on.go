//go:build verif
// +build verif

package main

import (
	"io"

	"github.com/openacid/low/bitmap"
	"github.com/openacid/low/bmtree"
	"github.com/openacid/low/iohelper"
)

// Observations that need the verif-tagged accessors in /repo (MANIFEST.hooks).

func hookedTables() string {
	return digest([]interface{}{bitmap.VerifSelect8Lookup(), bmtree.VerifIdxToPath()})
}

func tbReclaimed(tb *bitmap.TailBitmap) int64 { return tb.VerifReclaimed() }

func swCursor(w io.Writer) (int64, bool) {
	if s, ok := w.(*iohelper.SectionWriter); ok {
		return s.VerifCursor(), true
	}
	return 0, false
}

func hookSelect32Single(ws []uint64, sidx []int32, i int32) int32 {
	return bitmap.VerifSelect32Single(ws, sidx, i)
}
func hookIndexSelectU64(w uint64) uint64 { return bitmap.VerifIndexSelectU64(w) }
func hookSelectU64Indexed(w, idx, i uint64) int32 {
	r, _ := bitmap.VerifSelectU64Indexed(w, idx, i)
	return r
}
