// +build verif

package main

import (
	"io"

	"github.com/openacid/low/bitmap"
	"github.com/openacid/low/bmtree"
	"github.com/openacid/low/iohelper"
)

// Observations that need the verif-tagged accessors in /repo (MANIFEST.hooks).

func hookedTables() string {
	return digest([]interface{}{bitmap.VerifSelect8Lookup(), bmtree.VerifIdxToPath()})
}

func tbReclaimed(tb *bitmap.TailBitmap) int64 { return tb.VerifReclaimed() }

func swCursor(w io.Writer) (int64, bool) {
	if s, ok := w.(*iohelper.SectionWriter); ok {
		return s.VerifCursor(), true
	}
	return 0, false
}
