package main

// Projection layer: machine values <-> the JSON that TLC reads.
//
// Rules (DESIGN.md 2.3): TLC integers are 32-bit and Json.ndJsonDeserialize wraps
// silently, so a raw JSON number never exceeds +-2^30. 64-bit words travel as lists
// of bit positions or as four 16-bit limbs, byte strings as lists of byte values.

import (
	"bytes"
	"encoding/json"
	"fmt"
	"math/bits"
	"strconv"
)

// J is a JSON object under construction.
type J = map[string]interface{}

// BIG replaces any integer outside the range TLC can hold (and a little margin below). No value
// computed by a specification equals it (they are all > -2^30), so such an observation is always
// rejected, without a type error in TLC.
const BIG = -2000000000

func num(x int64) int64 {
	if x < -(1<<30) || x > 1<<31-1 {
		return BIG
	}
	return x
}

func nums32(xs []int32) []int64 {
	r := make([]int64, len(xs))
	for i, x := range xs {
		r[i] = num(int64(x))
	}
	return r
}

func numsInt(xs []int) []int64 {
	r := make([]int64, len(xs))
	for i, x := range xs {
		r[i] = num(int64(x))
	}
	return r
}

// onesOf lists the positions of the 1-bits of a bitmap, ascending, by a naive loop.
func onesOf(words []uint64) []int64 {
	r := []int64{}
	for i, w := range words {
		for b := 0; b < 64; b++ {
			if w>>uint(b)&1 == 1 {
				r = append(r, int64(i*64+b))
			}
		}
	}
	return r
}

// bmJ projects a bitmap.
func bmJ(words []uint64) J {
	return J{"nw": len(words), "ones": onesOf(words)}
}

// wordOnes lists the set bits of one word.
func wordOnes(w uint64) []int64 { return onesOf([]uint64{w}) }

// limbs projects a uint64 as four 16-bit limbs, most significant first.
func limbs(u uint64) []int64 {
	return []int64{int64(u >> 48), int64(u >> 32 & 0xffff), int64(u >> 16 & 0xffff), int64(u & 0xffff)}
}

func limbsList(us []uint64) [][]int64 {
	r := make([][]int64, len(us))
	for i, u := range us {
		r[i] = limbs(u)
	}
	return r
}

func bytesJ(b []byte) []int64 {
	r := make([]int64, len(b))
	for i, x := range b {
		r[i] = int64(x)
	}
	return r
}

func strJ(s string) []int64 { return bytesJ([]byte(s)) }

func strsJ(ss []string) [][]int64 {
	r := make([][]int64, len(ss))
	for i, s := range ss {
		r[i] = strJ(s)
	}
	return r
}

// ---- reading inputs back

// In wraps a decoded JSON object with typed accessors; any type error is a framework fault.
type In struct{ m J }

func parseIn(b []byte) In {
	dec := json.NewDecoder(bytes.NewReader(b))
	dec.UseNumber()
	var m J
	if err := dec.Decode(&m); err != nil {
		fatalf("parse case input: %v: %s", err, b)
	}
	return In{m}
}

func toI(v interface{}) int64 {
	switch x := v.(type) {
	case json.Number:
		n, err := strconv.ParseInt(string(x), 10, 64)
		if err != nil {
			fatalf("bad number %q", x)
		}
		return n
	case int:
		return int64(x)
	case int64:
		return x
	case float64:
		return int64(x)
	}
	fatalf("not a number: %T %v", v, v)
	return 0
}

func (in In) has(k string) bool { _, ok := in.m[k]; return ok }

func (in In) get(k string) interface{} {
	v, ok := in.m[k]
	if !ok {
		fatalf("missing input field %q in %v", k, in.m)
	}
	return v
}

func (in In) I(k string) int64   { return toI(in.get(k)) }
func (in In) I32(k string) int32 { return int32(toI(in.get(k))) }
func (in In) Int(k string) int   { return int(toI(in.get(k))) }
func (in In) S(k string) string {
	s, ok := in.get(k).(string)
	if !ok {
		fatalf("field %q is not a string", k)
	}
	return s
}
func (in In) Bool(k string) bool {
	b, ok := in.get(k).(bool)
	if !ok {
		fatalf("field %q is not a bool", k)
	}
	return b
}

func toList(v interface{}) []interface{} {
	l, ok := v.([]interface{})
	if !ok {
		fatalf("not a list: %T", v)
	}
	return l
}

func toIs(v interface{}) []int64 {
	l := toList(v)
	r := make([]int64, len(l))
	for i, x := range l {
		r[i] = toI(x)
	}
	return r
}

func (in In) Is(k string) []int64 { return toIs(in.get(k)) }
// I32s rebuilds a list of int32, like every rebuilt slice with spare capacity holding garbage beyond its length
// (cap instead of len, or reading one element too far, must show).
func (in In) I32s(k string) []int32 {
	l := in.Is(k)
	spare, garbage := 2, int32(0x5a5a5a5a)
	if len(l)%2 == 0 {
		spare, garbage = 5, -7
	}
	full := make([]int32, len(l)+spare)
	for i := range full {
		full[i] = garbage
	}
	for i, x := range l {
		full[i] = int32(x)
	}
	return full[:len(l)]
}

// emptyOpts is an empty variadic tail that still has capacity (a caller may pass opts[:0]...): len, not cap, says
// whether an option was given.
func emptyOpts() []int32 { return make([]int32, 0, 3) }

func emptyBoolOpts() []bool { return make([]bool, 0, 3) }

// toBytes rebuilds a byte slice, also with spare capacity holding garbage beyond its length.
func toBytes(v interface{}) []byte {
	l := toIs(v)
	// 3 or 19 spare bytes (word-at-a-time code needs 8 and more to go wrong), holding 0xa5 or 0xff
	spare, garbage := 3, byte(0xa5)
	if len(l)%2 == 0 {
		spare = 19
	}
	if len(l)%4 == 0 {
		garbage = 0xff
	}
	full := make([]byte, len(l)+spare)
	for i := range full {
		full[i] = garbage
	}
	r := full[:len(l)]
	for i, x := range l {
		if x < 0 || x > 255 {
			fatalf("byte out of range: %d", x)
		}
		r[i] = byte(x)
	}
	return r
}

// Bs reads a byte string (list of byte values).
func (in In) Bs(k string) []byte { return toBytes(in.get(k)) }

// Str reads a byte string as a Go string.
func (in In) Str(k string) string { return string(in.Bs(k)) }

// Strs reads a list of byte strings.
func (in In) Strs(k string) []string {
	l := toList(in.get(k))
	r := make([]string, len(l), len(l)+2+len(l)%3) // spare capacity (holding empty strings) behind the list
	defer func() {
		full := r[:cap(r)]
		for i := len(r); i < len(full); i++ {
			full[i] = "\xff\xfe garbage behind the list"
		}
	}()
	total := 0
	for i, x := range l {
		r[i] = string(toBytes(x))
		total += len(r[i])
	}
	// For every other list (by total length) neighbours that are prefix-related share memory: the shorter is a
	// substring of the longer, equal ones are the very same string. Functions of the VALUES must not notice.
	if total%2 == 0 {
		for i := len(r) - 2; i >= 0; i-- {
			if len(r[i]) <= len(r[i+1]) && r[i+1][:len(r[i])] == r[i] {
				r[i] = r[i+1][:len(r[i])]
			}
		}
	}
	return r
}

// L reads a list of objects.
func (in In) L(k string) []In {
	l := toList(in.get(k))
	r := make([]In, len(l))
	for i, x := range l {
		m, ok := x.(map[string]interface{})
		if !ok {
			fatalf("element of %q is not an object", k)
		}
		r[i] = In{m}
	}
	return r
}

// O reads a nested object.
func (in In) O(k string) In {
	m, ok := in.get(k).(map[string]interface{})
	if !ok {
		fatalf("field %q is not an object", k)
	}
	return In{m}
}

// BM rebuilds a bitmap from {"nw":n,"ones":[...]}.
func (in In) BM(k string) []uint64 {
	o := in.O(k)
	return bmFrom(o.Int("nw"), o.Is("ones"))
}

// bmFrom rebuilds a bitmap as a slice WITH SPARE CAPACITY holding all-ones garbage beyond its length, so
// that code confusing len and cap, or reading past the end, is visible (it must behave as for an exact slice).
func bmFrom(nw int, ones []int64) []uint64 {
	full := make([]uint64, nw+2)
	for i := range full {
		full[i] = ^uint64(0)
	}
	w := full[:nw]
	for i := range w {
		w[i] = 0
	}
	for _, p := range ones {
		if p < 0 || int(p>>6) >= nw {
			fatalf("bit %d outside %d words", p, nw)
		}
		w[p>>6] |= 1 << uint(p&63)
	}
	return w
}

// U64 rebuilds a word from four limbs.
func (in In) U64(k string) uint64 { return fromLimbs(toIs(in.get(k))) }

func fromLimbs(l []int64) uint64 {
	if len(l) != 4 {
		fatalf("limbs: want 4, got %d", len(l))
	}
	var u uint64
	for _, x := range l {
		if x < 0 || x > 0xffff {
			fatalf("limb out of range: %d", x)
		}
		u = u<<16 | uint64(x)
	}
	return u
}

// U64s rebuilds a list of words from a list of limb lists.
func (in In) U64s(k string) []uint64 {
	l := toList(in.get(k))
	full := make([]uint64, len(l)+2) // spare capacity holding garbage, like bmFrom
	for i := range full {
		full[i] = ^uint64(0)
	}
	r := full[:len(l)]
	for i, x := range l {
		r[i] = fromLimbs(toIs(x))
	}
	return r
}

// selfCheck verifies that the projection round-trips (run once at start-up).
func init() {
	ws := []uint64{0, 1, 1 << 63, 0xdeadbeefcafef00d, ^uint64(0)}
	back := bmFrom(len(ws), onesOf(ws))
	for i := range ws {
		if back[i] != ws[i] || fromLimbs(limbs(ws[i])) != ws[i] || len(wordOnes(ws[i])) != bits.OnesCount64(ws[i]) {
			panic(fmt.Sprintf("projection self-check failed on %x", ws[i]))
		}
	}
}
