module verifharness

go 1.14

require github.com/openacid/low v0.0.0

replace github.com/openacid/low => /repo
