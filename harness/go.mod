module verifharness

go 1.14

require (
	github.com/golang/protobuf v1.4.2
	github.com/openacid/errors v0.8.1
	github.com/openacid/low v0.0.0
)

replace github.com/openacid/low => /repo
