#!/usr/bin/env python3
"""Print the prompt given to an independent sub-agent that writes PROPERTY-PRESERVING changes (refactorings):
the checks must stay silent on them. Only the property text and a scratch worktree path are handed over."""
import json, sys
pid, wt = sys.argv[1], sys.argv[2]
for l in open('/verif/properties.jsonl'):
    p = json.loads(l)
    if p['id'] == pid:
        break
else:
    sys.exit('no such property')
print(f"""You are helping to evaluate a verification tool for FALSE ALARMS. Your job: write realistic, NON-TRIVIAL code changes to a Go library that keep a stated semantic property TRUE (refactorings, optimisations, rewrites), so that a correct checker of that property must stay silent on them.

The library is openacid/low (Go module github.com/openacid/low). You have your own scratch git worktree of it at {wt} . Work ONLY inside that directory. Never read or write anything under /repo or /verif (off limits), and do not use the network (there is none).

Every shell command needs these first: export GOFLAGS=-mod=mod GOPROXY=off GOSUMDB=off GOTOOLCHAIN=local
Existing test suite: (cd {wt} && go test -count=1 ./bitmap ./bitstr ./bitword ./bmtree ./iohelper ./pbcmpl ./sigbits ./size ./tree ./typehelper ./vers ./mathext/util) - all must pass (ignore ./mathext/zipf). Also `go test -count=1 -tags debug ./bmtree` if you touch bmtree, and `go test -race` on the packages you touch.

THE PROPERTY THAT MUST KEEP HOLDING ({p['id']}: {p['title']}):
{p['statement']}
It is meant to hold for: {p['quantifier']['text']}
Relevant files: {', '.join(p['anchors']['files'])}

What I need: THREE different changes (r1, r2, r3), each an independent patch against the unchanged worktree, each of which
 1. keeps the property above true for EVERY input / history / schedule in its stated domain (be careful: check it, do not assume it),
 2. is NOT trivial (no renames, comments or reformatting): change the algorithm or the representation. USE THE FREEDOM the property leaves: anything it does not fix may change - spare capacity of results, whether a result shares memory with nothing, the number and size of calls to underlying writers/readers as long as bytes/positions/results are as stated, the order of internal steps, caching that is reset and synchronised correctly, word-at-a-time or table-driven code, lazily built tables under sync.Once, wider integer types, merged or split helper functions, different but equally valid outputs where the property is a relation rather than a function, different panic messages or behaviour OUTSIDE the stated domain,
 3. compiles, passes the whole existing suite unmodified (and -race on the touched packages), and looks like something a maintainer would merge.
For each change ALSO write a differential test (zz_diff_rN_test.go in the package directory) that keeps a verbatim copy of the ORIGINAL function(s) under another name and compares old and new on at least 10^5 structured + random inputs (including the boundary cases of the domain) for everything the property speaks about; it must pass with the change applied.

Deliverables, all under {wt}/_ref/ (create it): r1.diff, r2.diff, r3.diff (`git diff` of the library change only, NOT the test; applicable with `git apply` to the unchanged tree), zz_diff_r1_test.go .. r3 (first line comment: which package directory), notes.md (per change: what it does, which freedom of the property it uses, why the property still holds, commands run and outcomes).
Leave the worktree clean of your library change at the end (git checkout -- . ; _ref stays). Keep your messages short; write long material to files, never into replies. Reply with a summary under 150 words.""")
