#!/bin/bash
# sedmut.sh <file> <sed-expr> <ID...>   quick hand-made mutant: apply sed to a scratch worktree, run suite + checks
set -u
export GOFLAGS=-mod=mod GOPROXY=off GOSUMDB=off GOTOOLCHAIN=local
file=$1; expr=$2; shift 2
wt=$(mktemp -d /tmp/sedmut.XXXXXX); rmdir $wt
git -C /repo worktree add -q --detach $wt HEAD || exit 2
trap "git -C /repo worktree remove --force $wt" EXIT
cd $wt && sed -i "$expr" $file
if git diff --quiet; then echo "SED DID NOT CHANGE ANYTHING"; exit 2; fi
git diff | grep '^[-+][^-+]'
PK="./bitmap ./bitstr ./bitword ./bmtree ./iohelper ./pbcmpl ./sigbits ./size ./tree ./typehelper ./vers ./mathext/util"
if go build ./... && go test -count=1 $PK >/tmp/sedmut.$$.log 2>&1 && go test -count=1 -tags debug ./bmtree >>/tmp/sedmut.$$.log 2>&1; then echo "suite passes with change"; else echo "SUITE FAILS WITH CHANGE (mutant would be caught by tests)"; fi
rm -f /tmp/sedmut.$$.log
cd /verif
for i in "$@"; do
  VERIF_REPO=$wt bin/check $i 2>/tmp/sedmut.err | head -2; rc=${PIPESTATUS[0]}
  echo "check $i rc=$rc"; [ $rc = 2 ] && tail -5 /tmp/sedmut.err
done
