#!/bin/bash
# runall.sh <tier> [seed]   run every registered check once, print one line per property
tier=${1:-quick}; seed=${2:-1}
cd "$(dirname "$0")/.."
for id in C01 C02 C03 C04 C05 C06 C07 C08 C09 C10 C11 C12 C13 C14 C15 C16 C17 C18 C19 C20; do
  s=$(date +%s)
  VERIF_SEED=$seed bin/check $id --tier $tier > /tmp/runall.$$.out 2> /tmp/runall.$$.err; rc=$?
  echo "$id tier=$tier seed=$seed rc=$rc $(( $(date +%s) - s ))s $(grep -c VIOLATION /tmp/runall.$$.out) violations; $(tail -1 /tmp/runall.$$.err | cut -c1-200)"
  [ $rc != 0 ] && { cat /tmp/runall.$$.out | head -5; tail -5 /tmp/runall.$$.err; }
done
rm -f /tmp/runall.$$.*
