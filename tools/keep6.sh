#!/bin/bash
# keep6.sh <ID> <m> <pkgdir> <text>   keep a round-6 change
MUTSRC=/tmp/mut6/$1/_out6 /verif/tools/keepmut.sh $1 $2 $3 "$1" "$4"
