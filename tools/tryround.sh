#!/bin/bash
# tryround.sh <root> <outsub> <ID> <pkgdir> <mA> <mB> [extra check ids]   try both changes of one agent delivery
root=$1; sub=$2; id=$3; pkg=$4; a=$5; b=$6; extra=${7:-}
for m in $a $b; do
  demo=$(readlink -f $root/$id/$sub/zz_demo_${m}_test.go)
  # the demo's package directory may differ per change: read it from the demo's first line if it names one
  p=$pkg; hint=$(head -3 $demo | grep -o -E "(bitmap|bmtree|bitstr|bitword|sigbits|pbcmpl|iohelper|size)" | head -1); [ -n "$hint" ] && p=$hint
  echo "== $id $m ($p): $(tools/trymut.sh $root/$id/$sub/$m.diff $demo $p "$id $extra" 2>&1 | grep -E "^check|DEMO|SUITE|PATCH" | tr '\n' ' ')"
done
