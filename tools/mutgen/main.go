// mutgen: syntactic mutants of the library's non-test Go files (stdlib only).
//
//	mutgen <repo-root> <pkgdir>...  > mutants.ndjson
//
// One JSON line per mutant: {"id","file","start","end","repl","orig","line","func","op"}; a mutant is the
// file with bytes [start,end) replaced by repl. The sweep (tools/mutsweep.py) keeps the mutants that
// compile and pass the pinned suite and runs the property checks on them.
package main

import (
	"encoding/json"
	"fmt"
	"go/ast"
	"go/parser"
	"go/token"
	"io/ioutil"
	"os"
	"path/filepath"
	"sort"
	"strconv"
	"strings"
)

type Mut struct {
	ID    string `json:"id"`
	File  string `json:"file"`
	Start int    `json:"start"`
	End   int    `json:"end"`
	Repl  string `json:"repl"`
	Orig  string `json:"orig"`
	Line  int    `json:"line"`
	Func  string `json:"func"`
	Op    string `json:"op"`
}

var binRepl = map[token.Token][]string{
	token.ADD: {"-"}, token.SUB: {"+"}, token.MUL: {"/"}, token.QUO: {"*"}, token.REM: {"/"},
	token.AND: {"|", "^"}, token.OR: {"&", "^"}, token.XOR: {"|", "&"}, token.AND_NOT: {"&"},
	token.SHL: {">>"}, token.SHR: {"<<"},
	token.LSS: {"<=", ">="}, token.LEQ: {"<", ">"}, token.GTR: {">=", "<="}, token.GEQ: {">", "<"},
	token.EQL: {"!="}, token.NEQ: {"=="},
	token.LAND: {"||"}, token.LOR: {"&&"},
}
var asgRepl = map[token.Token][]string{
	token.ADD_ASSIGN: {"-="}, token.SUB_ASSIGN: {"+="}, token.OR_ASSIGN: {"&=", "^="}, token.AND_ASSIGN: {"|="},
	token.XOR_ASSIGN: {"|="}, token.SHL_ASSIGN: {">>="}, token.SHR_ASSIGN: {"<<="}, token.MUL_ASSIGN: {"/="},
	token.AND_NOT_ASSIGN: {"&="},
}

var ops2 = os.Getenv("MUTGEN_OPS") == "2"
var ops3 = os.Getenv("MUTGEN_OPS") == "3"

func main() {
	root := os.Args[1]
	var out []Mut
	for _, pkg := range os.Args[2:] {
		files, _ := filepath.Glob(filepath.Join(root, pkg, "*.go"))
		sort.Strings(files)
		for _, f := range files {
			b := filepath.Base(f)
			if strings.HasSuffix(b, "_test.go") || strings.HasSuffix(b, ".pb.go") || strings.HasPrefix(b, "verif_") || b == "doc.go" {
				continue
			}
			out = append(out, mutate(root, f)...)
		}
	}
	enc := json.NewEncoder(os.Stdout)
	for i := range out {
		out[i].ID = fmt.Sprintf("M%05d", i)
		if ops2 {
			out[i].ID = fmt.Sprintf("N%05d", i)
		}
		if ops3 {
			out[i].ID = fmt.Sprintf("P%05d", i)
		}
		enc.Encode(out[i])
	}
}

func mutate(root, path string) []Mut {
	src, err := ioutil.ReadFile(path)
	if err != nil {
		panic(err)
	}
	fset := token.NewFileSet()
	f, err := parser.ParseFile(fset, path, src, 0)
	if err != nil {
		panic(err)
	}
	rel, _ := filepath.Rel(root, path)
	var out []Mut
	fn := ""
	off := func(p token.Pos) int { return fset.Position(p).Offset }
	add := func(s, e token.Pos, repl, op string) {
		so, eo := off(s), off(e)
		out = append(out, Mut{File: rel, Start: so, End: eo, Repl: repl, Orig: string(src[so:eo]), Line: fset.Position(s).Line, Func: fn, Op: op})
	}
	text := func(n ast.Node) string { return string(src[off(n.Pos()):off(n.End())]) }
	if ops3 {
		// third family: the wrong variable. Names declared TOGETHER (one parameter field `a, b []byte`, one var spec,
		// one `la, lb := ...`, one struct field list `base, off, limit int64`) have the same type or play the same
		// role: every use of one of them is replaced by each of the others.
		fieldGroups := map[string][]string{} // struct field name -> its group
		ast.Inspect(f, func(n ast.Node) bool {
			if st, ok := n.(*ast.StructType); ok {
				byType := map[string][]string{} // fields of one struct with the same type (as written)
				for _, fl := range st.Fields.List {
					t := text(fl.Type)
					for _, nm := range fl.Names {
						byType[t] = append(byType[t], nm.Name)
					}
				}
				for _, g := range byType {
					if len(g) > 1 {
						for _, nm := range g {
							fieldGroups[nm] = g
						}
					}
				}
			}
			return true
		})
		for _, d := range f.Decls {
			fd, ok := d.(*ast.FuncDecl)
			if !ok || fd.Body == nil {
				continue
			}
			fn = fd.Name.Name
			groups := map[string][]string{}
			addGroup := func(names []*ast.Ident) {
				var g []string
				for _, nm := range names {
					if nm.Name != "_" {
						g = append(g, nm.Name)
					}
				}
				if len(g) > 1 {
					for _, nm := range g {
						groups[nm] = g
					}
				}
			}
			for _, fl := range [](*ast.FieldList){fd.Type.Params, fd.Type.Results} {
				if fl != nil {
					byType := map[string][]*ast.Ident{} // parameters of the same type (as written), also across fields
					for _, x := range fl.List {
						byType[text(x.Type)] = append(byType[text(x.Type)], x.Names...)
					}
					for _, ids := range byType {
						addGroup(ids)
					}
				}
			}
			decl := map[token.Pos]bool{}
			ast.Inspect(fd.Body, func(n ast.Node) bool {
				switch x := n.(type) {
				case *ast.AssignStmt:
					if x.Tok == token.DEFINE {
						var ids []*ast.Ident
						for _, l := range x.Lhs {
							if id, ok := l.(*ast.Ident); ok {
								ids = append(ids, id)
								decl[id.Pos()] = true
							}
						}
						if len(ids) == len(x.Lhs) {
							addGroup(ids)
						}
					}
				case *ast.ValueSpec:
					addGroup(x.Names)
					for _, id := range x.Names {
						decl[id.Pos()] = true
					}
				}
				return true
			})
			ast.Inspect(fd.Body, func(n ast.Node) bool {
				switch x := n.(type) {
				case *ast.SelectorExpr:
					if g, ok := fieldGroups[x.Sel.Name]; ok {
						for _, o := range g {
							if o != x.Sel.Name {
								add(x.Sel.Pos(), x.Sel.End(), o, "field "+x.Sel.Name+"->"+o)
							}
						}
					}
					ast.Inspect(x.X, func(m ast.Node) bool { return true })
					return true
				case *ast.KeyValueExpr:
					return true
				case *ast.Ident:
					if decl[x.Pos()] {
						return true
					}
					if g, ok := groups[x.Name]; ok {
						for _, o := range g {
							if o != x.Name {
								add(x.Pos(), x.End(), o, "var "+x.Name+"->"+o)
							}
						}
					}
				}
				return true
			})
		}
		return out
	}
	if ops2 {
		// second family: operand swaps, index and slice bounds +-1, len -> cap / len-1, return values, if/else bodies
		var results *ast.FieldList
		ast.Inspect(f, func(n ast.Node) bool {
			switch x := n.(type) {
			case *ast.FuncDecl:
				fn = x.Name.Name
				results = x.Type.Results
			case *ast.GenDecl:
				if x.Tok == token.IMPORT {
					return false
				}
			case *ast.BinaryExpr:
				switch x.Op {
				case token.SUB, token.QUO, token.REM, token.SHL, token.SHR, token.AND_NOT:
					add(x.Pos(), x.End(), "("+text(x.Y)+") "+x.Op.String()+" ("+text(x.X)+")", "swap operands of "+x.Op.String())
				}
			case *ast.IndexExpr:
				add(x.Index.Pos(), x.Index.End(), "("+text(x.Index)+")+1", "index+1")
				add(x.Index.Pos(), x.Index.End(), "("+text(x.Index)+")-1", "index-1")
			case *ast.SliceExpr:
				if x.Low != nil {
					add(x.Low.Pos(), x.Low.End(), "("+text(x.Low)+")+1", "slice low+1")
				}
				if x.High != nil {
					add(x.High.Pos(), x.High.End(), "("+text(x.High)+")-1", "slice high-1")
					add(x.High.Pos(), x.High.End(), "("+text(x.High)+")+1", "slice high+1")
				}
			case *ast.CallExpr:
				if id, ok := x.Fun.(*ast.Ident); ok && len(x.Args) == 1 {
					if id.Name == "len" {
						add(x.Pos(), x.End(), "cap("+text(x.Args[0])+")", "len->cap")
						add(x.Pos(), x.End(), "(len("+text(x.Args[0])+")-1)", "len-1")
						add(x.Pos(), x.End(), "(len("+text(x.Args[0])+")+1)", "len+1")
					}
					if id.Name == "cap" {
						add(x.Pos(), x.End(), "len("+text(x.Args[0])+")", "cap->len")
					}
				}
				if id, ok := x.Fun.(*ast.Ident); ok && id.Name == "make" && len(x.Args) == 2 {
					add(x.Args[1].Pos(), x.Args[1].End(), "("+text(x.Args[1])+")+1", "make len+1")
				}
				if len(x.Args) == 2 { // swap the two arguments (kept if the types allow it)
					if sel, ok := x.Fun.(*ast.SelectorExpr); !ok || sel.Sel.Name != "Sprintf" {
						add(x.Args[0].Pos(), x.Args[1].End(), text(x.Args[1])+", "+text(x.Args[0]), "swap call arguments")
					}
				}
			case *ast.ReturnStmt:
				if len(x.Results) == 2 {
					add(x.Results[0].Pos(), x.Results[1].End(), text(x.Results[1])+", "+text(x.Results[0]), "swap return values")
				}
				for i, r := range x.Results {
					if results == nil || i >= len(results.List) {
						continue
					}
					if id, ok := results.List[i].Type.(*ast.Ident); ok {
						switch id.Name {
						case "int", "int32", "int64", "uint64", "uint32":
							add(r.Pos(), r.End(), "("+text(r)+")+1", "return+1")
							if text(r) != "0" {
								add(r.Pos(), r.End(), "0", "return 0")
							}
						}
					}
				}
			case *ast.IfStmt:
				if blk, ok := x.Else.(*ast.BlockStmt); ok && x.Init == nil {
					add(x.Pos(), x.End(), "if !("+text(x.Cond)+") "+text(x.Body)+" else "+text(blk), "negate if condition")
				}
			case *ast.RangeStmt:
				// iterate one element less
				add(x.X.Pos(), x.X.End(), "("+text(x.X)+")[1:]", "range skips first")
			}
			return true
		})
		return out
	}
	litCount := map[*ast.CompositeLit]int{}
	var stack []ast.Node
	ast.Inspect(f, func(n ast.Node) bool {
		if n == nil {
			stack = stack[:len(stack)-1]
			return true
		}
		stack = append(stack, n)
		switch x := n.(type) {
		case *ast.FuncDecl:
			fn = x.Name.Name
			if x.Recv != nil && len(x.Recv.List) > 0 {
				t := x.Recv.List[0].Type
				if s, ok := t.(*ast.StarExpr); ok {
					t = s.X
				}
				if id, ok := t.(*ast.Ident); ok {
					fn = id.Name + "." + fn
				}
			}
		case *ast.GenDecl:
			if len(stack) == 2 {
				fn = "(package level)"
			}
			if x.Tok == token.IMPORT {
				return false
			}
		case *ast.BinaryExpr:
			for _, r := range binRepl[x.Op] {
				add(x.OpPos, x.OpPos+token.Pos(len(x.Op.String())), r, "bin "+x.Op.String()+"->"+r)
			}
		case *ast.UnaryExpr:
			if x.Op == token.NOT || x.Op == token.SUB || x.Op == token.XOR {
				add(x.OpPos, x.OpPos+1, "", "drop unary "+x.Op.String())
			}
		case *ast.BasicLit:
			if x.Kind == token.INT {
				// elements of big tables: at most 6 per composite literal
				var cl *ast.CompositeLit
				for i := len(stack) - 2; i >= 0; i-- {
					if c, ok := stack[i].(*ast.CompositeLit); ok {
						cl = c
					}
				}
				if cl != nil {
					litCount[cl]++
					if litCount[cl] > 6 {
						return true
					}
				}
				v, err := strconv.ParseInt(x.Value, 0, 64)
				if err == nil {
					add(x.Pos(), x.End(), strconv.FormatInt(v+1, 10), "lit+1")
					if v > 0 {
						add(x.Pos(), x.End(), strconv.FormatInt(v-1, 10), "lit-1")
					}
				}
			}
		case *ast.IncDecStmt:
			r := "--"
			if x.Tok == token.DEC {
				r = "++"
			}
			add(x.TokPos, x.TokPos+2, r, "incdec")
			add(x.Pos(), x.End(), "", "delete stmt")
		case *ast.AssignStmt:
			for _, r := range asgRepl[x.Tok] {
				add(x.TokPos, x.TokPos+token.Pos(len(x.Tok.String())), r, "assign "+x.Tok.String()+"->"+r)
			}
			if x.Tok != token.DEFINE {
				if _, inFor := stack[len(stack)-2].(*ast.ForStmt); !inFor {
					add(x.Pos(), x.End(), "", "delete stmt")
				}
			}
		case *ast.ExprStmt:
			add(x.Pos(), x.End(), "", "delete stmt")
		case *ast.IfStmt:
			add(x.Cond.Pos(), x.Cond.End(), "true", "if true")
			add(x.Cond.Pos(), x.Cond.End(), "false", "if false")
		case *ast.ForStmt:
			if x.Cond != nil {
				add(x.Cond.Pos(), x.Cond.End(), "false", "for false")
			}
		case *ast.BranchStmt:
			if x.Label == nil && x.Tok == token.BREAK {
				add(x.Pos(), x.End(), "continue", "break->continue")
			}
			if x.Label == nil && x.Tok == token.CONTINUE {
				add(x.Pos(), x.End(), "break", "continue->break")
			}
		case *ast.CallExpr:
			// conversions between integer widths: a narrower or wider intermediate
			if id, ok := x.Fun.(*ast.Ident); ok && len(x.Args) == 1 {
				alt := map[string][]string{"int64": {"int32"}, "int32": {"int16"}, "uint64": {"uint32"}, "uint32": {"uint16"}, "int": {"int32"}, "uint8": {"int8"}, "byte": {"int8"}}
				for _, r := range alt[id.Name] {
					add(x.Pos(), x.End(), id.Name+"("+r+"("+string(src[off(x.Args[0].Pos()):off(x.Args[0].End())])+"))", "narrow "+id.Name+" via "+r)
				}
			}
		}
		return true
	})
	return out
}
