// mutgen: syntactic mutants of the library's non-test Go files (stdlib only).
//
//	mutgen <repo-root> <pkgdir>...  > mutants.ndjson
//
// One JSON line per mutant: {"id","file","start","end","repl","orig","line","func","op"}; a mutant is the
// file with bytes [start,end) replaced by repl. The sweep (tools/mutsweep.py) keeps the mutants that
// compile and pass the pinned suite and runs the property checks on them.
package main

import (
	"encoding/json"
	"fmt"
	"go/ast"
	"go/parser"
	"go/token"
	"io/ioutil"
	"os"
	"path/filepath"
	"sort"
	"strconv"
	"strings"
)

type Mut struct {
	ID    string `json:"id"`
	File  string `json:"file"`
	Start int    `json:"start"`
	End   int    `json:"end"`
	Repl  string `json:"repl"`
	Orig  string `json:"orig"`
	Line  int    `json:"line"`
	Func  string `json:"func"`
	Op    string `json:"op"`
}

var binRepl = map[token.Token][]string{
	token.ADD: {"-"}, token.SUB: {"+"}, token.MUL: {"/"}, token.QUO: {"*"}, token.REM: {"/"},
	token.AND: {"|", "^"}, token.OR: {"&", "^"}, token.XOR: {"|", "&"}, token.AND_NOT: {"&"},
	token.SHL: {">>"}, token.SHR: {"<<"},
	token.LSS: {"<=", ">="}, token.LEQ: {"<", ">"}, token.GTR: {">=", "<="}, token.GEQ: {">", "<"},
	token.EQL: {"!="}, token.NEQ: {"=="},
	token.LAND: {"||"}, token.LOR: {"&&"},
}
var asgRepl = map[token.Token][]string{
	token.ADD_ASSIGN: {"-="}, token.SUB_ASSIGN: {"+="}, token.OR_ASSIGN: {"&=", "^="}, token.AND_ASSIGN: {"|="},
	token.XOR_ASSIGN: {"|="}, token.SHL_ASSIGN: {">>="}, token.SHR_ASSIGN: {"<<="}, token.MUL_ASSIGN: {"/="},
	token.AND_NOT_ASSIGN: {"&="},
}

func main() {
	root := os.Args[1]
	var out []Mut
	for _, pkg := range os.Args[2:] {
		files, _ := filepath.Glob(filepath.Join(root, pkg, "*.go"))
		sort.Strings(files)
		for _, f := range files {
			b := filepath.Base(f)
			if strings.HasSuffix(b, "_test.go") || strings.HasSuffix(b, ".pb.go") || strings.HasPrefix(b, "verif_") || b == "doc.go" {
				continue
			}
			out = append(out, mutate(root, f)...)
		}
	}
	enc := json.NewEncoder(os.Stdout)
	for i := range out {
		out[i].ID = fmt.Sprintf("M%05d", i)
		enc.Encode(out[i])
	}
}

func mutate(root, path string) []Mut {
	src, err := ioutil.ReadFile(path)
	if err != nil {
		panic(err)
	}
	fset := token.NewFileSet()
	f, err := parser.ParseFile(fset, path, src, 0)
	if err != nil {
		panic(err)
	}
	rel, _ := filepath.Rel(root, path)
	var out []Mut
	fn := ""
	off := func(p token.Pos) int { return fset.Position(p).Offset }
	add := func(s, e token.Pos, repl, op string) {
		so, eo := off(s), off(e)
		out = append(out, Mut{File: rel, Start: so, End: eo, Repl: repl, Orig: string(src[so:eo]), Line: fset.Position(s).Line, Func: fn, Op: op})
	}
	litCount := map[*ast.CompositeLit]int{}
	var stack []ast.Node
	ast.Inspect(f, func(n ast.Node) bool {
		if n == nil {
			stack = stack[:len(stack)-1]
			return true
		}
		stack = append(stack, n)
		switch x := n.(type) {
		case *ast.FuncDecl:
			fn = x.Name.Name
			if x.Recv != nil && len(x.Recv.List) > 0 {
				t := x.Recv.List[0].Type
				if s, ok := t.(*ast.StarExpr); ok {
					t = s.X
				}
				if id, ok := t.(*ast.Ident); ok {
					fn = id.Name + "." + fn
				}
			}
		case *ast.GenDecl:
			if len(stack) == 2 {
				fn = "(package level)"
			}
			if x.Tok == token.IMPORT {
				return false
			}
		case *ast.BinaryExpr:
			for _, r := range binRepl[x.Op] {
				add(x.OpPos, x.OpPos+token.Pos(len(x.Op.String())), r, "bin "+x.Op.String()+"->"+r)
			}
		case *ast.UnaryExpr:
			if x.Op == token.NOT || x.Op == token.SUB || x.Op == token.XOR {
				add(x.OpPos, x.OpPos+1, "", "drop unary "+x.Op.String())
			}
		case *ast.BasicLit:
			if x.Kind == token.INT {
				// elements of big tables: at most 6 per composite literal
				var cl *ast.CompositeLit
				for i := len(stack) - 2; i >= 0; i-- {
					if c, ok := stack[i].(*ast.CompositeLit); ok {
						cl = c
					}
				}
				if cl != nil {
					litCount[cl]++
					if litCount[cl] > 6 {
						return true
					}
				}
				v, err := strconv.ParseInt(x.Value, 0, 64)
				if err == nil {
					add(x.Pos(), x.End(), strconv.FormatInt(v+1, 10), "lit+1")
					if v > 0 {
						add(x.Pos(), x.End(), strconv.FormatInt(v-1, 10), "lit-1")
					}
				}
			}
		case *ast.IncDecStmt:
			r := "--"
			if x.Tok == token.DEC {
				r = "++"
			}
			add(x.TokPos, x.TokPos+2, r, "incdec")
			add(x.Pos(), x.End(), "", "delete stmt")
		case *ast.AssignStmt:
			for _, r := range asgRepl[x.Tok] {
				add(x.TokPos, x.TokPos+token.Pos(len(x.Tok.String())), r, "assign "+x.Tok.String()+"->"+r)
			}
			if x.Tok != token.DEFINE {
				if _, inFor := stack[len(stack)-2].(*ast.ForStmt); !inFor {
					add(x.Pos(), x.End(), "", "delete stmt")
				}
			}
		case *ast.ExprStmt:
			add(x.Pos(), x.End(), "", "delete stmt")
		case *ast.IfStmt:
			add(x.Cond.Pos(), x.Cond.End(), "true", "if true")
			add(x.Cond.Pos(), x.Cond.End(), "false", "if false")
		case *ast.ForStmt:
			if x.Cond != nil {
				add(x.Cond.Pos(), x.Cond.End(), "false", "for false")
			}
		case *ast.BranchStmt:
			if x.Label == nil && x.Tok == token.BREAK {
				add(x.Pos(), x.End(), "continue", "break->continue")
			}
			if x.Label == nil && x.Tok == token.CONTINUE {
				add(x.Pos(), x.End(), "break", "continue->break")
			}
		case *ast.CallExpr:
			// conversions between integer widths: a narrower or wider intermediate
			if id, ok := x.Fun.(*ast.Ident); ok && len(x.Args) == 1 {
				alt := map[string][]string{"int64": {"int32"}, "int32": {"int16"}, "uint64": {"uint32"}, "uint32": {"uint16"}, "int": {"int32"}, "uint8": {"int8"}, "byte": {"int8"}}
				for _, r := range alt[id.Name] {
					add(x.Pos(), x.End(), id.Name+"("+r+"("+string(src[off(x.Args[0].Pos()):off(x.Args[0].End())])+"))", "narrow "+id.Name+" via "+r)
				}
			}
		}
		return true
	})
	return out
}
