module mutgen

go 1.14
