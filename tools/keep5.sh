#!/bin/bash
# keep5.sh <ID> <m> <pkgdir> <text>   keep a round-5 change
MUTSRC=/tmp/mut5/$1/_out5 /verif/tools/keepmut.sh $1 $2 $3 "$1" "$4"
