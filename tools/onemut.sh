#!/bin/bash
# onemut.sh <mutant id> <check ids...>: apply one mutant of mutation/mutants.ndjson to a scratch worktree and run checks
id=$1; shift
wt=$(mktemp -d /tmp/onemut.XXXXXX); rmdir $wt
git -C /repo worktree add -q --detach $wt HEAD || exit 2
trap "git -C /repo worktree remove --force $wt" EXIT
python3 - $id $wt <<'PY'
import json,sys
import itertools
for l in itertools.chain(open('/verif/mutation/mutants.ndjson'), open('/verif/mutation/mutants2.ndjson')):
    m=json.loads(l)
    if m['id']==sys.argv[1]:
        p=sys.argv[2]+'/'+m['file']; s=open(p,'rb').read()
        assert s[m['start']:m['end']].decode()==m['orig']
        open(p,'wb').write(s[:m['start']]+m['repl'].encode()+s[m['end']:]); print(m['file'],m['line'],m['orig'],'->',m['repl'])
PY
cd /verif
for i in "$@"; do VERIF_SKIP_MC=1 VERIF_REPO=$wt bin/check $i 2>/tmp/onemut.err | head -1; echo "check $i rc=${PIPESTATUS[0]}"; done
