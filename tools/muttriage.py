#!/usr/bin/env python3
"""muttriage.py: writes mutation/TRIAGE.md and prints the summary of the mutation sweep.
Every mutant that passed the pinned suite AND the quick checks gets a class and a reason; the reasons are
hand-written (mutation/reasons.json: "file:line" -> reason, or mutant id -> [class, reason])."""
import json, collections, os, sys
V = os.path.dirname(os.path.dirname(os.path.abspath(__file__)))
FAM = sys.argv[1] if len(sys.argv) > 1 else '1'     # 1: first operator family (M...), 2: second (N...), 3: third (P...)
SFX = '' if FAM == '1' else '_' + FAM
R = json.load(open(os.path.join(V, 'mutation', 'reasons%s.json' % ('' if FAM == '1' else FAM))))
recheck = {}
p2 = os.path.join(V, 'mutation', 'stage2b%s.ndjson' % SFX)
if os.path.exists(p2):
    for l in open(p2):
        m = json.loads(l); recheck[m['id']] = m['verdict']
s1 = collections.Counter(json.loads(l)['stage1'] for l in open(os.path.join(V, 'mutation', 'stage1%s.ndjson' % SFX)))
c = collections.Counter(); killed = collections.Counter(); unk = []
rows = []
for l in open(os.path.join(V, 'mutation', 'stage2%s.ndjson' % SFX)):
    m = json.loads(l)
    if m['verdict'].startswith('killed'):
        killed[m['verdict'].split('=')[1]] += 1
        continue
    key = '%s:%d' % (m['file'], m['line'])
    if m['id'] in R:
        cls, why = R[m['id']]
    elif recheck.get(m['id'], '').startswith('killed'):
        cls, why = 'FIXED', 'real miss of the checks as they stood; after strengthening ' + recheck[m['id']].replace('=', ' ')
    elif m['op'].startswith('narrow'):
        cls, why = 'N16', 'the converted value always fits the narrower type (a popcount, a bit position, a constant, a value that is an int32 already)'
    elif key in R:
        cls, why = 'EQ', R[key]
    else:
        cls, why = '?', ''
        unk.append(m['id'])
    c[cls] += 1
    esc = lambda t: t[:40].replace('|', '\\|').replace('\n', ' ')
    rows.append('| %s | %s:%d %s | `%s` -> `%s` | %s | %s |' % (m['id'], m['file'], m['line'], m['func'], esc(m['orig']), esc(m['repl']), cls, why.replace('|', '\\|')))
head = ['# Mutation sweep: the mutants that passed the pinned suite AND the quick checks, one by one', '',
        'Source: `mutation/stage2%s.ndjson` (verdicts of `tools/mutsweep.py check`), re-runs against the final checks in `mutation/stage2b%s.ndjson`.' % (SFX, SFX),
        'Classes: **EQ** no behaviour inside the property changes (reason given); **N16** an integer conversion narrowed through a 16/32-bit type whose value always fits (operator "narrow", applied blindly to every conversion); **FIXED** a real miss of the checks as they stood, killed after they were strengthened; **BIG** real, but needs an object of 2 GiB and more.', '',
        'stage 1: %s; stage 2: killed %d, passed the checks %d (%s)' % (dict(s1), sum(killed.values()), sum(c.values()), dict(c)), '',
        '| mutant | where | change | class | why |', '|---|---|---|---|---|']
open(os.path.join(V, 'mutation', 'TRIAGE%s.md' % SFX), 'w').write('\n'.join(head + rows) + '\n')
print('stage1', dict(s1)); print('killed by', dict(killed)); print('passed', dict(c)); print('unclassified', unk)
