#!/bin/bash
# tryref.sh <diff> [tier]   applies a (supposedly) property-preserving change to a scratch worktree of /repo, runs the
# pinned suite, then every check of every property anchored in a package the diff touches (plus C19); prints one line
# per check. Any rc != 0 needs an explanation: a false alarm of the checks, or a change that is not preserving after all.
diff=$(readlink -f $1); tier=${2:-quick}
cd "$(dirname "$0")/.."
wt=$(mktemp -d /tmp/tryref.XXXXXX); rmdir $wt
git -C /repo worktree add --detach $wt HEAD >/dev/null 2>&1
trap "git -C /repo worktree remove --force $wt >/dev/null 2>&1" EXIT
if ! git -C $wt apply $diff; then echo "PATCH DOES NOT APPLY"; exit 3; fi
export GOFLAGS=-mod=mod GOPROXY=off GOSUMDB=off GOTOOLCHAIN=local
if ! (cd $wt && go build ./... && go test -vet=off -count=1 ./bitmap ./bitstr ./bitword ./bmtree ./iohelper ./pbcmpl ./sigbits ./size ./tree ./typehelper ./vers ./mathext/util >/tmp/tryref.suite 2>&1 && go test -vet=off -count=1 -tags debug ./bmtree >>/tmp/tryref.suite 2>&1); then echo "SUITE FAILS WITH CHANGE"; tail -5 /tmp/tryref.suite; exit 3; fi
ids=""
grep -q "^+++ b/bitmap/" $diff && ids="$ids C01 C02 C12 C13 C14 C15 C11"
grep -q "^+++ b/bmtree/" $diff && ids="$ids C03 C04 C05 C10 C11"
grep -q "^+++ b/bitstr/" $diff && ids="$ids C09"
grep -q "^+++ b/bitword/" $diff && ids="$ids C08"
grep -q "^+++ b/sigbits/" $diff && ids="$ids C16 C17"
grep -q "^+++ b/pbcmpl/" $diff && ids="$ids C06 C07"
grep -q "^+++ b/iohelper/" $diff && ids="$ids C18"
grep -q "^+++ b/size/" $diff && ids="$ids C20"
ids="$(echo $ids C19 | tr ' ' '\n' | sort -u | tr '\n' ' ')"
bad=0
for id in $ids; do
  VERIF_REPO=$wt bin/check $id --tier $tier >/tmp/tryref.out 2>/tmp/tryref.err; rc=$?
  printf "%s rc=%d; " $id $rc
  if [ $rc -ne 0 ]; then bad=1; echo; grep VIOLATION /tmp/tryref.out | head -2; tail -2 /tmp/tryref.err | cut -c1-300; fi
done
echo
rm -f /tmp/tryref.out /tmp/tryref.err /tmp/tryref.suite
exit $bad
