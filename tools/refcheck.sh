#!/bin/bash
# refcheck.sh [tier]  applies every property-preserving refactoring (refactorings/R*.diff) to a scratch worktree of /repo
# and runs the checks of the properties it could touch: every one of them must exit 0 (no alarm on correct code).
cd "$(dirname "$0")/.."
tier=${1:-quick}
declare -A ids=( [R01]="C06 C07" [R02]="C15" [R03]="C15" [R04]="C18" [R05]="C12" [R06]="C02 C19" [R07]="C20" [R08]="C14 C19" [R09]="C18" )
bad=0
for f in refactorings/R*.diff; do
  r=$(basename $f | cut -c1-3)
  wt=/tmp/refwt_$r
  git -C /repo worktree add --detach $wt HEAD >/dev/null 2>&1
  if ! git -C $wt apply /verif/$f; then echo "$r PATCH DOES NOT APPLY"; bad=1; git -C /repo worktree remove --force $wt; continue; fi
  for id in ${ids[$r]}; do
    VERIF_REPO=$wt bin/check $id --tier $tier >/tmp/refcheck.out 2>/tmp/refcheck.err; rc=$?
    echo "$r $id rc=$rc $(grep -c VIOLATION /tmp/refcheck.out) violations"
    [ $rc -ne 0 ] && bad=1 && tail -3 /tmp/refcheck.err
  done
  git -C /repo worktree remove --force $wt
done
rm -f /tmp/refcheck.out /tmp/refcheck.err
# the 36 changes written by independent sub-agents (about an hour): tools/refcheck.sh quick all
if [ "$2" = "all" ]; then
  for f in refactorings/independent/*.diff; do
    out=$(tools/tryref.sh $f $tier 2>&1 | tail -3 | tr '\n' ' ')
    echo "$(basename $f .diff): $out"
    echo "$out" | grep -q "rc=[1-9]\|DOES NOT\|FAILS" && bad=1
  done
fi
exit $bad
