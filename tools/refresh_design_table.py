#!/usr/bin/env python3
"""Replaces the table of DESIGN.md 12.2 by the one generated from the current evidence files."""
import subprocess, os, re
V = os.path.dirname(os.path.dirname(os.path.abspath(__file__)))
tab = subprocess.run(['python3', os.path.join(V, 'tools', 'design_table.py')], stdout=subprocess.PIPE, text=True).stdout
p = os.path.join(V, 'DESIGN.md')
s = open(p).read()
a = s.index('### 12.2 Per property: modules, engines, what the quick tier covered')
b = s.index('### 12.2b Beyond TLC')
head = ('### 12.2 Per property: modules, engines, what the quick tier covered (seed 1, this machine)\n\n'
        'Generated from `evidence/*.json` by `tools/design_table.py` (the numbers of the last registered quick run; definition / machine modules per property as in 6.0):\n\n')
open(p, 'w').write(s[:a] + head + tab + '\n' + s[b:])
