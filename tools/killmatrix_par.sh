#!/bin/bash
# killmatrix_par.sh [jobs] [tier] [name-regex]  like killmatrix.sh, several changes at a time (each in its own scratch
# worktree); the design-level engines are skipped (VERIF_SKIP_MC: they do not depend on the code).
cd "$(dirname "$0")/.."
jobs=${1:-3}; tier=${2:-quick}; pat=${3:-.}
one() {
  d=$1; tier=$2
  name=$(basename $d); id=${name%%-*}
  if grep -q "NOT DETECTED" $d/meta.json; then echo "$name documented-not-detected (skipped)"; return; fi
  if grep -q "THOROUGH tier: detected\|thorough-only\|thorough tier only" $d/meta.json && [ "$tier" = quick ]; then echo "$name thorough-only (skipped in the quick matrix)"; return; fi
  by=$(python3 -c "import json,sys; print(json.load(open('$d/meta.json')).get('detected_by') or '$id')")
  out=$(VERIF_SKIP_MC=1 tools/trymut.sh $d/patch.diff - - $by $tier 2>&1)
  if echo "$out" | grep -q "PATCH DOES NOT APPLY"; then echo "$name PATCH DOES NOT APPLY"; return; fi
  rc=$(echo "$out" | grep -o "check $by rc=[0-9]*" | head -1 | sed 's/.*rc=//')
  if [ "$rc" = "1" ]; then echo "$name detected"; else echo "$name NOT DETECTED rc=$rc"; fi
}
export -f one
ls -d seeded/*/ | grep -E "$pat" | xargs -P $jobs -I{} bash -c "one {} $tier"
