#!/usr/bin/env python3
"""Print the prompt given to an independent sub-agent that seeds a property-breaking change.
Only the property text and a scratch worktree path are handed over (nothing from /verif)."""
import json, sys
pid = sys.argv[1]
wt = sys.argv[2]
round2 = len(sys.argv) > 3 and sys.argv[3] in ('2', '3', '4', '5', '6', '7', '8')
round7 = len(sys.argv) > 3 and sys.argv[3] in ('7', '8')
round8 = len(sys.argv) > 3 and sys.argv[3] == '8'
round6 = len(sys.argv) > 3 and sys.argv[3] == '6'
round5 = len(sys.argv) > 3 and sys.argv[3] == '5'
round4 = len(sys.argv) > 3 and sys.argv[3] == '4'
flavour = sys.argv[4] if len(sys.argv) > 4 else 'a'
round3 = len(sys.argv) > 3 and sys.argv[3] == '3'
for l in open('/verif/properties.jsonl'):
    p = json.loads(l)
    if p['id'] == pid:
        break
else:
    sys.exit('no such property')
text = (f"""You are helping to evaluate a verification tool. Your job: craft realistic, subtle code changes ("seeded defects") to a Go library so that a stated semantic property no longer holds, while the library still compiles and its existing test suite still passes.

The library is openacid/low (Go module github.com/openacid/low): a small utility library of succinct bit-level primitives. You have your own scratch git worktree of it at {wt} . Work ONLY inside that directory. Never read or write anything under /repo or /verif (they are off limits), and do not use the network (there is none).

Every shell command needs these first: export GOFLAGS=-mod=mod GOPROXY=off GOSUMDB=off GOTOOLCHAIN=local
Existing test suite: (cd {wt} && go test -count=1 ./bitmap ./bitstr ./bitword ./bmtree ./iohelper ./pbcmpl ./sigbits ./size ./tree ./typehelper ./vers ./mathext/util)   — all must pass (ignore ./mathext/zipf, it fails even on the unchanged tree). Also run `go test -count=1 -tags debug ./bmtree` if you touch bmtree; it should pass too.

THE PROPERTY TO BREAK ({p['id']}: {p['title']}):
{p['statement']}
It is meant to hold for: {p['quantifier']['text']}
Relevant files: {', '.join(p['anchors']['files'])}

What I need from you: TWO different changes (call them m1 and m2), each an independent small patch against the unchanged worktree, each of which
 1. breaks the property above (a real behavioural violation visible through the public API, not a mere refactoring),
 2. still compiles (`go build ./...` and `go vet` style sanity) and still passes the whole existing test suite listed above, unmodified,
 3. looks like a plausible maintenance change / optimisation / off-by-one a maintainer could make (no comments announcing the bug, no test-only conditionals, no dependence on environment variables or time),
 4. needs something SPECIFIC to manifest: a particular multi-step sequence of operations, an unusual or boundary input (specific word-boundary position, length parity, size threshold, rare bit pattern), a fault at a particular point, a particular interleaving, or two cooperating sites that each look fine alone. Changes that ordinary use would expose at once (e.g. every call returns a wrong answer) are NOT wanted. Prefer that m1 and m2 use different mechanisms / live in different functions.

For each change also write a demonstration: a Go test file (placed in the package directory, named zz_demo_m1_test.go / zz_demo_m2_test.go) that FAILS with the change applied and PASSES on the unchanged code. Verify both directions yourself (use `git stash` or `git diff > file; git checkout -- .` to switch).

Deliverables, all under {wt}/_out/ (create the directory):
  m1.diff, m2.diff      — `git diff` of the library change only (NOT including the demo test), applicable with `git apply` to the unchanged tree
  zz_demo_m1_test.go, zz_demo_m2_test.go   — copies of the demonstrations, with a first-line comment saying in which package directory each belongs
  notes.md              — for each change: what it does, the exact condition needed for it to manifest, the commands you ran and their outcome (suite passes with change; demo fails with change; demo passes without)
When you are done, leave the worktree itself clean of your library change (git checkout -- . ; the _out directory stays) and reply with a short summary (under 200 words) of the two changes and what triggers them.""")
if round2:
    text = text.replace("4. needs something SPECIFIC to manifest:", "4. is HARD to hit: it must not show on typical or uniformly random inputs (aim for fewer than 1 in 10,000 random inputs / histories, or a sequence of at least three dependent operations, or a precise size / alignment / parity threshold combined with a particular bit pattern, or a rarely taken error path, or two cooperating sites in different files that each look fine alone, or a helper / table / shared utility in a DIFFERENT file than the obvious one). It needs something SPECIFIC to manifest:")
    text = text.replace("_out/", "_out2/").replace("m1", "m3").replace("m2", "m4")
if round3:
    text = text.replace('_out2/', '_out3/').replace('m3', 'm5').replace('m4', 'm6')
if round4:
    extra = {
        'a': 'For this task, BOTH changes must be of the "two cooperating sites" kind: two edits in different functions (preferably different files) that each look correct alone and only together break the property under a specific sequence or input.',
        'b': 'For this task, BOTH changes must live on a rarely executed path: an error path, a boundary branch, an early-return special case, a fallback, or behaviour for inputs at the very edge of the stated domain (extreme sizes, extreme integer values, empty or nil inputs, maximal heights/widths).',
        'c': 'For this task, BOTH changes must look like performance work: a cache or memo, a fast path, loop unrolling or word/block-at-a-time processing, a lookup table, buffer reuse/pooling, lazy initialisation, avoiding an allocation or a copy. The slow/simple path must stay correct.',
    }[flavour]
    text = text.replace('What I need from you: TWO different changes', extra + '\n\nWhat I need from you: TWO different changes')
    text = text.replace('_out2/', '_out4/').replace('m3', 'm7').replace('m4', 'm8')
if round5:
    extra = {
        'd': 'For this task, BOTH changes must be made OUTSIDE the function(s) the property names: in a shared helper, a lookup table or its generator, a constant, a mask, or a small utility in another file or another package of this module that the named functions reach only indirectly. Other callers of that helper should keep working for the inputs the existing tests use.',
        'e': 'For this task, BOTH changes must depend on a representation detail that two equal-looking inputs can differ in: slice capacity versus length, aliasing between an argument and a result or between two arguments, nil versus empty, zero-length inputs or zero-width requests, a reused destination or receiver that already holds data from an earlier call, or what a previous call on the same object left behind.',
        'f': 'For this task, BOTH changes must be correct for everything of the sizes the existing tests use and wrong only for inputs that are LARGER or more extreme than anything in the existing tests, while still inside the stated domain: more than 2^16 elements or bits, counts that cross 256 / 4096 / 65536, strings or bodies beyond 64 KiB, maximal heights or widths, offsets or indexes above 2^31 or 2^32, deep nesting. (An input of a few MiB is fine; do not require more than about 64 MiB of memory.)',
    }[flavour]
    text = text.replace('What I need from you: TWO different changes', extra + '\n\nWhat I need from you: TWO different changes')
    text = text.replace('_out2/', '_out5/').replace('m3', 'm9').replace('m4', 'm10')
    text += '\nKeep your progress messages short; do not paste whole files into your replies.'
if round6:
    extra = {
        'g': 'For this task, BOTH changes must be HISTORY dependent: correct for any single call on a fresh object / fresh process, and wrong only after a specific sequence of calls (on the same object, or of other functions of this module earlier in the same process), e.g. a particular order of operations, a repeated or redundant call, a call that fails or is a no-op followed by a normal one, growth followed by shrinking followed by growth, or reuse of an object after it reported an error.',
        'h': 'For this task, BOTH changes must be about integer WIDTH or SIGN: a narrower or differently signed intermediate (int32 vs int vs int64, uint8/uint16 counters, signed shifts, negative operands of % / >> / division, a conversion placed before instead of after an addition or multiplication), so that results are right until some quantity crosses 2^7, 2^8, 2^15, 2^16, 2^24, 2^31 or 2^32, or becomes negative. (Do not require more than about 64 MiB of memory.)',
        'i': 'For this task, BOTH changes must be about the EDGES of the contract: what happens for empty, nil, zero-width, zero-length, single-element, maximal or exactly-at-the-limit arguments; the difference between returning an error / -1 / an empty result and panicking; which error value is returned; what a function leaves behind (partial output, advanced cursor, modified receiver) when it fails or has nothing to do.',
    }[flavour]
    text = text.replace('What I need from you: TWO different changes', extra + '\n\nWhat I need from you: TWO different changes')
    text = text.replace('_out2/', '_out6/').replace('m3', 'm11').replace('m4', 'm12')
    text += '\nKeep your progress messages short; do not paste whole files into your replies.'
if round7:
    extra = ('For this task you choose the mechanism yourself. Assume the change will be hunted by a thorough test generator that already covers: every boundary of 8/16/32/64 bits and bytes, counts crossing 256 / 1024 / 4096 / 65536, objects of 2^16 .. 2^31 bits, 10^5 keys, offsets near MaxInt32 and MaxInt64, slices with spare capacity holding garbage, arguments that share memory, nil versus empty, results inspected after further calls, earlier unrelated use of the library in the same process, rereads after failed reads, writer faults at every byte, long call histories on one object, and concurrent readers under the race detector. '
             'Find something it would STILL miss: think about which combination of conditions nobody enumerates (two thresholds at once, a rare value in one argument together with a rare state left by an earlier call, a property of the input that is not a size or an alignment, e.g. a specific bit pattern, a palindromic or periodic structure, equal adjacent elements, a value equal to an internal sentinel or to a table index). Say in notes.md why you believe a generator like that misses it.')
    text = text.replace('What I need from you: TWO different changes', extra + '\n\nWhat I need from you: TWO different changes')
    text = text.replace('_out2/', '_out7/').replace('m3', 'm13').replace('m4', 'm14')
    text += '\nKeep your progress messages short; do not paste whole files into your replies.'
if round8:
    # short round: one change only (m17), same brief as round 7
    text = text.replace('_out7/', '_out8/').replace('m13', 'm17')
    text = text.replace('TWO different changes (call them m17 and m14), each an independent small patch', 'ONE change (call it m17; ignore every mention of a second change m14 below), an independent small patch')
    text += '\nYou have about 10 minutes: prefer a simple, well-verified change over an elaborate one.'
print(text)
