#!/bin/bash
# trymut.sh <patch.diff> <demo_test.go|-> <pkgdir|-> <ID> [tier]
# Applies a seeded change to a scratch worktree of /repo, confirms that it compiles, passes the pinned
# suite and that the demonstration fails with it (and passes without), then runs bin/check <ID> on it.
set -u
export GOFLAGS=-mod=mod GOPROXY=off GOSUMDB=off GOTOOLCHAIN=local
patch=$(readlink -f "$1"); demo=$2; pkg=$3; id=$4; tier=${5:-quick}
wt=$(mktemp -d /tmp/trymut.XXXXXX); rmdir $wt
git -C /repo worktree add -q --detach $wt HEAD || exit 2
cleanup() { git -C /repo worktree remove --force $wt; }
trap cleanup EXIT
PK="./bitmap ./bitstr ./bitword ./bmtree ./iohelper ./pbcmpl ./sigbits ./size ./tree ./typehelper ./vers ./mathext/util"
cd $wt
if [ "$demo" != "-" ]; then
  cp "$demo" $pkg/zz_demo_test.go
  if go test -count=1 ./$pkg -run . >/tmp/trymut.$$.log 2>&1; then echo "demo passes without change: OK"; else echo "DEMO FAILS WITHOUT CHANGE"; tail -5 /tmp/trymut.$$.log; fi
  rm -f $pkg/zz_demo_test.go
fi
git apply "$patch" || { echo "PATCH DOES NOT APPLY"; exit 2; }
if go build ./... && go test -count=1 $PK >/tmp/trymut.$$.log 2>&1 && go test -count=1 -tags debug ./bmtree >>/tmp/trymut.$$.log 2>&1; then echo "suite passes with change: OK"; else echo "SUITE FAILS WITH CHANGE"; grep -E "^(FAIL|---)" /tmp/trymut.$$.log | head; fi
if [ "$demo" != "-" ]; then
  cp "$demo" $pkg/zz_demo_test.go
  if go test -count=1 ./$pkg >/tmp/trymut.$$.log 2>&1; then echo "DEMO PASSES WITH CHANGE"; else echo "demo fails with change: OK"; fi
  rm -f $pkg/zz_demo_test.go
fi
rm -f /tmp/trymut.$$.log
cd /verif
for i in $id; do
  start=$(date +%s)
  VERIF_REPO=$wt bin/check $i --tier $tier 2>/tmp/trymut.err | head -5; rc=${PIPESTATUS[0]}
  echo "check $i rc=$rc ($(( $(date +%s) - start ))s)"; [ $rc = 2 ] && tail -5 /tmp/trymut.err
done
