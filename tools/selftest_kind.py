#!/usr/bin/env python3
"""selftest_kind.py <ID> <kind> [tier]  binding demonstration for one event kind (e.g. the pattern-described big objects):
records the property's trace, keeps the first event of that kind, checks TLC accepts it, corrupts one number of its
observation (out) and checks TLC rejects it."""
import importlib.machinery, importlib.util, json, os, random, shutil, sys, tempfile
VERIF = os.path.dirname(os.path.dirname(os.path.abspath(__file__)))
sys.path.insert(0, os.path.join(VERIF, 'bin'))
spec = importlib.util.spec_from_loader('check', importlib.machinery.SourceFileLoader('check', os.path.join(VERIF, 'bin', 'check')))
check = importlib.util.module_from_spec(spec); spec.loader.exec_module(check)
from props import PROPS
sys.path.insert(0, os.path.join(VERIF, 'tools'))
import selftest_binding as sb
pid, kind = sys.argv[1], sys.argv[2]
tier = sys.argv[3] if len(sys.argv) > 3 else 'quick'
P = PROPS[pid]
bd = (P.get('bindings') or [dict(drv=pid, trace=P['trace'], builds=P.get('builds', ['plain']))])[0]
work = tempfile.mkdtemp(prefix='selfkind-', dir=os.path.join(VERIF, '.work'))
try:
    shutil.copytree(os.path.join(VERIF, 'spec'), os.path.join(work, 'spec'))
    drv = check.build_driver(work, bd.get('builds', ['plain'])[0])
    out = os.path.join(work, 'tr')
    rc, so, se = check.run([drv, 'record', '-prop', bd['drv'], '-seed', '1', '-tier', tier, '-out', out, '-shard', '0', '-of', '1'])
    line = next((l for l in open(os.path.join(out, '0.ndjson')) if '"k":"%s"' % kind in l), None)
    if line is None:
        print('no event of kind', kind); sys.exit(1)
    good = os.path.join(work, 'good.ndjson'); open(good, 'w').write(line)
    st, rej = check.validate_trace(work, bd['trace'], good)
    if rej:
        print('untouched event rejected'); sys.exit(1)
    ev = json.loads(line); rng = random.Random(3); n_ok = 0
    for attempt in range(6):
        ok, nv = sb.corrupt(ev['out'], rng)
        ev2 = dict(ev); ev2['out'] = nv
        bad = os.path.join(work, 'bad.ndjson'); open(bad, 'w').write(json.dumps(ev2) + '\n')
        st2, rej2 = check.validate_trace(work, bd['trace'], bad)
        n_ok += 1 if rej2 else 0
    print('%s %s: untouched event accepted; %d of 6 single-number corruptions of its observation rejected' % (pid, kind, n_ok))
    sys.exit(0 if n_ok >= 5 else 1)
finally:
    shutil.rmtree(work, ignore_errors=True)
