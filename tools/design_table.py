#!/usr/bin/env python3
"""Prints the table of DESIGN.md 12.2 from the evidence files (quick tier)."""
import json, os
V = os.path.dirname(os.path.dirname(os.path.abspath(__file__)))
print('| id | tier | MC configs (distinct states) | IND / PROOF | GEN behaviours | cases / events / judged calls | wall |')
print('|---|---|---|---|---|---|---|')
for i in range(1, 21):
    pid = 'C%02d' % i
    e = json.load(open(os.path.join(V, 'evidence', pid + '.json')))
    c = e['coverage']
    mc = ', '.join('%s %s' % (m['cfg'].replace('.cfg', ''), format(m['distinct'], ',')) for m in c.get('mc', []))
    ind = '; '.join(['Apalache %s (%d obligations)' % (a['module'], len([o for o in a['obligations'] if o['kind'] == 'prove'])) for a in c.get('apalache', [])] +
                    ['TLAPS %s (%d)' % (t['module'], t['obligations_proved']) for t in c.get('tlaps', [])]) or '-'
    gen = ', '.join('%s %d' % (g['module'], g['behaviours']) for g in c.get('gen', [])) or '-'
    print('| %s | %s | %s | %s | %s | %s / %s / %s | %.0f s |' % (pid, e['tier'], mc, ind, gen, format(c['traces_validated_against_impl'], ','),
          format(c['trace']['events'], ','), format(c['evaluations'], ','), e['wall_s']))
