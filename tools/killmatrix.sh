#!/bin/bash
# killmatrix.sh [tier]  re-applies every kept seeded change (seeded/<ID>-mN/patch.diff) to a scratch worktree of
# /repo and runs the quick check of the property it breaks; prints one line per change and a summary.
# Regression test of the checks themselves: every change recorded as detected must still be detected.
cd "$(dirname "$0")/.."
tier=${1:-quick}
ok=0; miss=0; skip=0
for d in seeded/*/; do
  name=$(basename $d)
  id=${name%%-*}
  if grep -q "NOT DETECTED" $d/meta.json; then echo "$name documented-not-detected (skipped)"; skip=$((skip+1)); continue; fi
  by=$(python3 -c "import json,sys; print(json.load(open('$d/meta.json')).get('detected_by') or '$id')")   # the property whose check reports it
  id=$by
  out=$(tools/trymut.sh $d/patch.diff - - $id $tier 2>&1)
  if echo "$out" | grep -q "PATCH DOES NOT APPLY"; then echo "$name PATCH DOES NOT APPLY"; miss=$((miss+1)); continue; fi
  rc=$(echo "$out" | grep -o "check $id rc=[0-9]*" | head -1 | sed 's/.*rc=//')
  suite=$(echo "$out" | grep -c "suite passes with change: OK")
  if [ "$rc" = "1" ]; then ok=$((ok+1)); echo "$name detected (suite_passes=$suite)"; else miss=$((miss+1)); echo "$name NOT DETECTED rc=$rc (suite_passes=$suite)"; fi
done
echo "SUMMARY detected=$ok not_detected=$miss documented_skips=$skip"
