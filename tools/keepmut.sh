#!/bin/bash
# keepmut.sh <ID> <m1|m2> <pkgdir> <check ids run> <result text>
# Stores a confirmed seeded change under /verif/seeded/<ID>-<m>/ (patch.diff, demo test, notes, meta.json).
set -e
id=$1; m=$2; pkg=$3; checks=$4; result=$5
src=${MUTSRC:-/tmp/mut/$id/_out}
dst=/verif/seeded/$id-$m
mkdir -p $dst
cp $src/$m.diff $dst/patch.diff
cp $src/zz_demo_${m}_test.go $dst/zz_demo_test.go
cp $src/notes.md $dst/agent_notes.md
python3 - "$id" "$m" "$pkg" "$checks" "$result" <<'PY'
import json, sys, re
id, m, pkg, checks, result = sys.argv[1:6]
notes = open('/verif/seeded/%s-%s/agent_notes.md' % (id, m)).read()
# the section of the notes about this change
sec = re.split(r'\n(?=#+ *m[12])', notes)
mine = [s for s in sec if re.match(r'#+ *' + m, s)]
json.dump(dict(
    breaks_property=id, change=m, demo_package_dir=pkg,
    origin='independent sub-agent given only the property text and a scratch worktree',
    needs_to_manifest=(mine[0] if mine else notes)[:1800],
    confirmed_by_me='tools/trymut.sh: patch applies to /repo HEAD, builds, pinned suite (+ -tags debug ./bmtree) passes with it, demo test fails with it and passes without it',
    checks_run=checks.split(), result=result,
), open('/verif/seeded/%s-%s/meta.json' % (id, m), 'w'), indent=1)
PY
echo kept $dst
