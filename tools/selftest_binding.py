#!/usr/bin/env python3
"""selftest_binding.py [ID...]

Demonstrates that every trace specification is bound to what the driver records (DESIGN.md section 4):
for each property a small trace is recorded from the real code, ONE recorded observation of ONE event in
the middle is corrupted (a number changed by one, a boolean flipped, a digest altered), and TLC must
reject the trace at exactly that event; the untouched trace must be accepted.
Prints one line per (property, binding); exit 1 if any binding fails the demonstration."""
import importlib.machinery, importlib.util, json, os, random, shutil, sys, tempfile

VERIF = os.path.dirname(os.path.dirname(os.path.abspath(__file__)))
sys.path.insert(0, os.path.join(VERIF, 'bin'))
spec = importlib.util.spec_from_loader('check', importlib.machinery.SourceFileLoader('check', os.path.join(VERIF, 'bin', 'check')))
check = importlib.util.module_from_spec(spec)
spec.loader.exec_module(check)
from props import PROPS  # noqa: E402

OBS_KEYS = ('out', 'st', 'r', 'rn', 'n', 'err', 'under', 'cur', 'body', 'ver', 'used', 'written', 'size', 'mem')


def corrupt(v, rng):
    """Return (changed, new value): change the first suitable leaf found (depth first, random start)."""
    if isinstance(v, bool):
        return True, (not v)
    if isinstance(v, int):
        return True, v + 1
    if isinstance(v, str):
        return (True, v + 'x') if v not in ('',) else (True, 'x')
    if isinstance(v, list):
        idx = list(range(len(v)))
        rng.shuffle(idx)
        for i in idx:
            ok, nv = corrupt(v[i], rng)
            if ok:
                w = list(v)
                w[i] = nv
                return True, w
        return False, v
    if isinstance(v, dict):
        keys = sorted(v)
        rng.shuffle(keys)
        for k in keys:
            ok, nv = corrupt(v[k], rng)
            if ok:
                w = dict(v)
                w[k] = nv
                return True, w
        return False, v
    return False, v


def main():
    ids = sys.argv[1:] or [p for p in sorted(PROPS) if not PROPS[p].get('extra')]
    rng = random.Random(7)
    bad = 0
    for pid in ids:
        P = PROPS[pid]
        bindings = P.get('bindings') or [dict(drv=pid, trace=P['trace'], builds=P.get('builds', ['plain']))]
        work = tempfile.mkdtemp(prefix='selftest-%s-' % pid, dir=os.path.join(VERIF, '.work'))
        try:
            shutil.copytree(os.path.join(VERIF, 'spec'), os.path.join(work, 'spec'))
            for bi, bd in enumerate(bindings):
                b = bd.get('builds', ['plain'])[0]
                drv = check.build_driver(work, b)
                out = os.path.join(work, 'tr%d' % bi)
                rc, so, se = check.run([drv, 'record', '-prop', bd['drv'], '-seed', '1', '-tier', 'quick', '-out', out, '-shard', '0', '-of', '64'],
                                       env={'VERIF_RACE_LOG': os.path.join(work, 'race'), 'GORACE': 'log_path=%s exitcode=0' % os.path.join(work, 'race')})
                if rc != 0:
                    print('%s[%d] driver failed rc=%d' % (pid, bi, rc))
                    bad += 1
                    continue
                lines = open(os.path.join(out, '0.ndjson')).read().split('\n')
                if lines[-1] == '':
                    lines.pop()
                # a short trace is enough: whole cases up to ~400 events, at least the first case
                first_c = json.loads(lines[0])['c']
                cut = 0
                for i, ln in enumerate(lines):
                    c = json.loads(ln)['c']
                    if i > 0 and c != json.loads(lines[i - 1])['c'] and (i <= 400 or cut == 0):
                        cut = i
                    if i > 400 and cut > 0:
                        break
                else:
                    cut = len(lines)
                lines = lines[:cut]
                if not lines:
                    print('%s[%d] trace too short' % (pid, bi))
                    bad += 1
                    continue
                good = os.path.join(work, 'good%d.ndjson' % bi)
                open(good, 'w').write('\n'.join(lines) + '\n')
                st, rej = check.validate_trace(work, bd['trace'], good)
                if rej:
                    print('%s[%d] %s: UNTOUCHED TRACE REJECTED at line %d' % (pid, bi, bd['trace']['module'], rej[0][0]))
                    bad += 1
                    continue
                # corrupt one observation of one event around the middle
                done = False
                tries = 0
                order = list(range(len(lines) // 3, len(lines))) + list(range(0, len(lines) // 3))
                for li in order:
                    ev = json.loads(lines[li])
                    keys = [k for k in OBS_KEYS if k in ev]
                    rng.shuffle(keys)
                    for k in keys:
                        ok, nv = corrupt(ev[k], rng)
                        if ok and nv != ev[k]:
                            ev2 = dict(ev)
                            ev2[k] = nv
                            cl = list(lines)
                            cl[li] = json.dumps(ev2)
                            badf = os.path.join(work, 'bad%d.ndjson' % bi)
                            open(badf, 'w').write('\n'.join(cl) + '\n')
                            try:
                                st2, rej2 = check.validate_trace(work, bd['trace'], badf)
                            except check.FrameworkError as e:
                                print('%s[%d] %s: corrupting %s of event %d (%s) made TLC fail: %s' % (pid, bi, bd['trace']['module'], k, li + 1, ev.get('k'), str(e)[:200]))
                                bad += 1
                                done = True
                                break
                            if rej2 and rej2[0][0] == li + 1:
                                print('%s[%d] %s: %d events accepted; corrupted field %r of event %d (kind %s) -> rejected at exactly that event: OK' % (
                                    pid, bi, bd['trace']['module'], len(lines), k, li + 1, ev.get('k')))
                            elif not rej2 and tries < 4:
                                tries += 1    # the corrupted leaf may be one the property leaves open (e.g. a placeholder): try another one
                                continue
                            else:
                                print('%s[%d] %s: corrupted field %r of event %d (kind %s) NOT rejected there (rejections: %s)' % (
                                    pid, bi, bd['trace']['module'], k, li + 1, ev.get('k'), [r[0] for r in rej2]))
                                bad += 1
                            done = True
                            break
                    if done:
                        break
                if not done:
                    print('%s[%d] nothing to corrupt' % (pid, bi))
                    bad += 1
        finally:
            shutil.rmtree(work, ignore_errors=True)
    return 1 if bad else 0


if __name__ == '__main__':
    sys.exit(main())
