#!/bin/bash
# keep7.sh <ID> <m> <pkgdir> <text>   keep a round-7 change
MUTSRC=/tmp/mut7/$1/_out7 /verif/tools/keepmut.sh $1 $2 $3 "$1" "$4"
