#!/usr/bin/env python3
"""mutsweep.py: systematic mutation sweep of openacid/low against the registered checks.

  stage 1  tools/mutsweep.py filter  <mutants.ndjson> <out.ndjson> [-j N]
           every mutant is applied to a scratch copy of /repo; kept = compiles and passes the pinned suite
           (the package's own tests first, then the whole suite and `-tags debug ./bmtree`)
  stage 2  tools/mutsweep.py check   <survivors.ndjson> <results.ndjson> [-j N] [--tier quick]
           every kept mutant is applied to a scratch git worktree of /repo and the quick checks of the
           properties anchored in the mutated file are run (VERIF_REPO=<worktree>, VERIF_SKIP_MC=1) until one
           reports a violation; result per mutant: killed_by=<ID> | survived (all rc=0) | trouble (rc=2)
Nothing is written to /repo; scratch copies live under /tmp/mutsweep and are removed at the end.
"""
import json, os, subprocess, sys, shutil, threading, queue, time

VERIF = os.path.dirname(os.path.dirname(os.path.abspath(__file__)))
ENV = dict(os.environ, GOFLAGS='-mod=mod', GOPROXY='off', GOSUMDB='off', GOTOOLCHAIN='local')
PK = './bitmap ./bitstr ./bitword ./bmtree ./iohelper ./pbcmpl ./sigbits ./size ./tree ./typehelper ./vers ./mathext/util'.split()
ROOT = '/tmp/mutsweep'

# which checks can see a change in which file (first = most likely)
FILEMAP = {
    'bitmap/bitmap.go': 'C01 C12',
    'bitmap/rank.go': 'C01 C02',
    'bitmap/mask.go': 'C01 C13 C14 C02 C10 C11 C12 C03 C04',
    'bitmap/select.go': 'C02 X01',
    'bitmap/fromstr32.go': 'C11',
    'bitmap/of.go': 'C12', 'bitmap/ofmany.go': 'C12', 'bitmap/builder.go': 'C12', 'bitmap/toarray.go': 'C12',
    'bitmap/get.go': 'C12 C14',
    'bitmap/next.go': 'C13', 'bitmap/join.go': 'C14', 'bitmap/slice.go': 'C14', 'bitmap/tailbitmap.go': 'C15',
    'bitmap/fmt.go': 'X01',
    'bmtree/index.go': 'C03 C05 C04', 'bmtree/partial_tree.go': 'C03 C04',
    'bmtree/pathcheck.go': 'C03 C04 C05', 'bmtree/bitmap_check.go': 'C03 C04 C05', 'bmtree/bitmappath_check.go': 'C03 C04',
    'bmtree/allpaths.go': 'C04', 'bmtree/decode.go': 'C04',
    'bmtree/newpath.go': 'C10 C11 C04 C03', 'bmtree/height.go': 'C03 C04 C05',
    'bmtree/pathlen.go': 'C10 C03 C04', 'bmtree/pathheight.go': 'C10 C03 C04', 'bmtree/pathbits.go': 'C10 C03 C04',
    'bmtree/pathstr.go': 'C10', 'bmtree/bmtree.go': 'C03 C04',
    'bitstr/bitstr.go': 'C09', 'bitword/bitword.go': 'C08',
    'sigbits/firstdiff.go': 'C16 C17', 'sigbits/countprefixes.go': 'C16', 'sigbits/sigbits_countprefixes.go': 'C16',
    'sigbits/sigbits.go': 'C16', 'sigbits/sharding.go': 'C17',
    'pbcmpl/pbcmpl.go': 'C06 C07', 'pbcmpl/header.go': 'C06 C07', 'pbcmpl/errors.go': 'C07',
    'iohelper/iohelper.go': 'C18 X02', 'size/sizeof.go': 'C20 X05',
}


def sh(cmd, cwd=None, timeout=600, env=ENV):
    try:
        p = subprocess.run(cmd, cwd=cwd, env=env, stdout=subprocess.PIPE, stderr=subprocess.STDOUT, timeout=timeout)
        return p.returncode, p.stdout.decode(errors='replace')
    except subprocess.TimeoutExpired as e:
        return -9, (e.stdout or b'').decode(errors='replace') + '\nTIMEOUT'


def apply(root, m):
    path = os.path.join(root, m['file'])
    src = open(path, 'rb').read()
    assert src[m['start']:m['end']].decode() == m['orig'], (m['id'], 'source changed')
    open(path, 'wb').write(src[:m['start']] + m['repl'].encode() + src[m['end']:])
    return src


def filter_worker(k, q, out, lock):
    root = os.path.join(ROOT, 'f%d' % k)
    shutil.rmtree(root, ignore_errors=True)
    shutil.copytree('/repo', root, ignore=shutil.ignore_patterns('.git'))
    while True:
        try:
            m = q.get_nowait()
        except queue.Empty:
            break
        pkg = './' + os.path.dirname(m['file'])
        orig = apply(root, m)
        try:
            rc, o = sh(['go', 'test', '-vet=off', '-count=1', '-timeout', '60s', pkg], cwd=root, timeout=200)
            verdict = 'tests' if rc != 0 else None
            if verdict == 'tests' and ('[build failed]' in o or 'cannot use' in o or 'declared and not used' in o or 'declared but not used' in o or 'syntax error' in o):
                verdict = 'nocompile'
            if verdict is None:
                rc, o = sh(['go', 'build', './...'], cwd=root)
                if rc != 0:
                    verdict = 'nocompile'
            if verdict is None:
                rc, o = sh(['go', 'test', '-vet=off', '-count=1', '-timeout', '120s'] + PK, cwd=root, timeout=400)
                if rc != 0:
                    verdict = 'tests'
            if verdict is None and pkg in ('./bitmap', './bmtree'):
                rc, o = sh(['go', 'test', '-vet=off', '-count=1', '-timeout', '120s', '-tags', 'debug', './bmtree'], cwd=root, timeout=300)
                if rc != 0:
                    verdict = 'tests'
            m['stage1'] = verdict or 'kept'
        finally:
            open(os.path.join(root, m['file']), 'wb').write(orig)
        with lock:
            out.write(json.dumps(m) + '\n')
            out.flush()
    shutil.rmtree(root, ignore_errors=True)


def check_worker(k, q, out, lock, tier):
    wt = os.path.join(ROOT, 'c%d' % k)
    subprocess.run(['git', '-C', '/repo', 'worktree', 'remove', '--force', wt], stdout=subprocess.DEVNULL, stderr=subprocess.DEVNULL)
    shutil.rmtree(wt, ignore_errors=True)
    rc, o = sh(['git', '-C', '/repo', 'worktree', 'add', '-q', '--detach', wt, 'HEAD'])
    assert rc == 0, o
    try:
        while True:
            try:
                m = q.get_nowait()
            except queue.Empty:
                break
            sh(['git', 'checkout', '--', '.'], cwd=wt)
            apply(wt, m)
            ids = m.get('checks') or FILEMAP.get(m['file'], '').split()
            res = {}
            killed = None
            for pid in ids:
                t0 = time.time()
                env = dict(ENV, VERIF_REPO=wt, VERIF_SKIP_MC='1', VERIF_SEED=os.environ.get('VERIF_SEED', '1'), VERIF_TMP=os.path.join(ROOT, 'work%d' % k))
                os.makedirs(env['VERIF_TMP'], exist_ok=True)
                rc, o = sh([os.path.join(VERIF, 'bin', 'check'), pid, '--tier', tier], cwd=VERIF, timeout=3600, env=env)
                res[pid] = dict(rc=rc, s=round(time.time() - t0, 1))
                if rc == 1:
                    killed = pid
                    break
                if rc != 0:
                    res[pid]['tail'] = o[-600:]
            m['results'] = res
            m['verdict'] = ('killed_by=' + killed) if killed else ('trouble' if any(r['rc'] not in (0, 1) for r in res.values()) else ('survived' if res else 'nocheck'))
            with lock:
                out.write(json.dumps(m) + '\n')
                out.flush()
    finally:
        subprocess.run(['git', '-C', '/repo', 'worktree', 'remove', '--force', wt], stdout=subprocess.DEVNULL, stderr=subprocess.DEVNULL)
        shutil.rmtree(os.path.join(ROOT, 'work%d' % k), ignore_errors=True)


def main():
    mode, inp, outp = sys.argv[1:4]
    j = int(sys.argv[sys.argv.index('-j') + 1]) if '-j' in sys.argv else (12 if mode == 'filter' else 3)
    tier = sys.argv[sys.argv.index('--tier') + 1] if '--tier' in sys.argv else 'quick'
    os.makedirs(ROOT, exist_ok=True)
    done = set()
    if os.path.exists(outp):
        for l in open(outp):
            done.add(json.loads(l)['id'])
    q = queue.Queue()
    n = 0
    for l in open(inp):
        m = json.loads(l)
        if m['id'] in done:
            continue
        if mode == 'check' and m.get('stage1') != 'kept':
            continue
        q.put(m)
        n += 1
    print('%s: %d mutants to do (%d done before), %d workers' % (mode, n, len(done), j), flush=True)
    out = open(outp, 'a')
    lock = threading.Lock()
    ths = []
    for k in range(j):
        t = threading.Thread(target=filter_worker if mode == 'filter' else check_worker,
                             args=(k, q, out, lock) + ((tier,) if mode == 'check' else ()))
        t.start()
        ths.append(t)
    for t in ths:
        t.join()
    print('done', flush=True)


if __name__ == '__main__':
    main()
