#!/usr/bin/env python3-vt
import json, jsonschema, glob, sys
jsonschema.validate(json.load(open('/verif/MANIFEST.json')), json.load(open('/root/.vp/MANIFEST.schema.json')))
es = json.load(open('/root/.vp/EVIDENCE.schema.json'))
for f in sorted(glob.glob('/verif/evidence/*.json')):
    jsonschema.validate(json.load(open(f)), es)
print('manifest and', len(glob.glob('/verif/evidence/*.json')), 'evidence files validate')
