"""Per-property configuration of bin/check: which specification modules, configs and driver builds decide it."""

TRUST = [
    'TLC and the CommunityModules Json/IOUtils readers',
    'the projection layer of the Go driver (harness/cmd/drv/proj.go): lossless re-encoding of machine values, self-checked at start-up',
    'the scaled exhaustive model (MC) transfers to the real constants because the definitions mention the scale only through W/BB position arithmetic; the real scale is bound by trace validation of sampled and enumerated executions, not exhaustively',
]


def mc(module, cfg=None, **kw):
    d = dict(module=module, cfg=cfg or module + '.cfg')
    d.update(kw)
    return d


PROPS = {}


def sim(module, cfg, num, depth, kind, field='ops', **kw):
    """GEN job: TLC -simulate writes `num` behaviours; each becomes a driver case {k: kind, in: {field: behaviour}}."""
    d = dict(module=module, cfg=cfg, extra=['-simulate', 'num=%d' % num, '-depth', str(depth), '-seed', '{seed}'],
             to_case=lambda obj, n: {'c': n, 'k': kind, 'in': {field: obj}})
    d.update(kw)
    return d

PROPS['C15'] = dict(
    trace=dict(module='Trace_TailBitmap', cfg='Trace_TailBitmap.cfg'),
    mc=dict(quick=[mc('MC_TailBitmap', 'MC_TailBitmap_q.cfg', expect_min_distinct=10000)],
            thorough=[mc('MC_TailBitmap', 'MC_TailBitmap.cfg', expect_min_distinct=300000)]),
    need_kinds=['tb'],
    rule='a case is one TailBitmap history (New, then Set/Compact/Get/Get1 calls): structured fills of 1-5 words in six orders, '
         'seeded random histories of 60-360 calls, one front-to-back history crossing the 1024-word reclaim threshold and far-bit-first histories; '
         'every call is one trace event with the projected state (Offset, len(Words), stored 1-bits) judged by Trace_TailBitmap; '
         'distinct = distinct operation sequences (sha256 of the inputs), non-trivial = at least one call after New',
    assumptions=TRUST + ['Get/Get1 are probed only at indexes up to the highest index ever set (the property\'s own domain)'],
)

PROPS['C18'] = dict(
    trace=dict(module='Trace_SectionWriter', cfg='Trace_SectionWriter.cfg'),
    mc=dict(quick=[mc('MC_SectionWriter', 'MC_SectionWriter_q.cfg', expect_min_distinct=5000)],
            thorough=[mc('MC_SectionWriter', 'MC_SectionWriter.cfg', expect_min_distinct=5000)]),
    need_kinds=['sw'],
    gen=dict(quick=[sim('Gen_SectionWriter', 'Gen_SectionWriter.cfg', 400, 20, 'sw')],
             thorough=[sim('Gen_SectionWriter', 'Gen_SectionWriter_t.cfg', 10000, 24, 'sw', shards=8)]),
    rule='a case is one SectionWriter/AtToWriter history over a scripted underlying io.WriterAt (accepts k bytes, optionally fails): '
         'seeded sequences of Write/WriteAt/Seek/Size with buffers ending exactly at, one before and beyond the section end, every whence incl. invalid ones, '
         'offsets before the section start, cursor probes by Seek(0,SeekCurrent); every call is one trace event (arguments, returned count, error class, every underlying call with offset and bytes) '
         'judged by Trace_SectionWriter; distinct = distinct operation sequences, non-trivial = at least one call after New',
    assumptions=TRUST + ['the underlying writer obeys io.WriterAt (accepts at most what it is offered, reports an error when it accepts less)',
                         'offsets are below 2^29 (TLC integers); AtToWriter is exercised without SeekEnd (its limit is MaxInt64 by construction)'],
)
