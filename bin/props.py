"""Per-property configuration of bin/check: which specification modules, configs and driver builds decide it."""

TRUST = [
    'TLC and the CommunityModules Json/IOUtils readers',
    'the projection layer of the Go driver (harness/cmd/drv/proj.go): lossless re-encoding of machine values, self-checked at start-up',
    'the scaled exhaustive model (MC) transfers to the real constants because the definitions mention the scale only through W/BB position arithmetic; the real scale is bound by trace validation of sampled and enumerated executions, not exhaustively',
]


def mc(module, cfg=None, **kw):
    d = dict(module=module, cfg=cfg or module + '.cfg')
    d.update(kw)
    return d


PROPS = {}


def bfs(module, cfg, kind, **kw):
    """GEN job: TLC enumerates states exhaustively (BFS); every state is written as one driver case {k: kind, in: state}."""
    d = dict(module=module, cfg=cfg, extra=[], to_case=lambda obj, n: {'c': n, 'k': kind, 'in': obj})
    d.update(kw)
    return d


def sim(module, cfg, num, depth, kind, field='ops', **kw):
    """GEN job: TLC -simulate writes `num` behaviours; each becomes a driver case {k: kind, in: {field: behaviour}}."""
    d = dict(module=module, cfg=cfg, extra=['-simulate', 'num=%d' % num, '-depth', str(depth), '-seed', '{seed}'],
             to_case=lambda obj, n: {'c': n, 'k': kind, 'in': {field: obj}})
    d.update(kw)
    return d

PROPS['C15'] = dict(
    trace=dict(module='Trace_TailBitmap', cfg='Trace_TailBitmap.cfg'),
    bindings=[dict(drv='C15', trace=dict(module='Trace_TailBitmap', cfg='Trace_TailBitmap.cfg'),
                   gen=dict(quick=[sim('Gen_TailBitmap', 'Gen_TailBitmap_q.cfg', 30, 30, 'tb', shards=8)],
                            thorough=[sim('Gen_TailBitmap', 'Gen_TailBitmap.cfg', 250, 40, 'tb', shards=16)])),
              # positions 2^31 bits and more beyond the Offset, as pairs (thorough tier only: 256 MiB and more per history)
              dict(drv='C15f', trace=dict(module='Trace_TailBitmapFar', cfg='Trace_TailBitmapFar.cfg'), shards=dict(quick=1, thorough=2))],
    mc=dict(quick=[mc('MC_TailBitmap', 'MC_TailBitmap_q.cfg', expect_min_distinct=10000)],
            thorough=[mc('MC_TailBitmap', 'MC_TailBitmap.cfg', expect_min_distinct=300000)]),
    tlaps=dict(quick=[dict(module='TailBitmapProof')], thorough=[dict(module='TailBitmapProof', refute='TailBitmapProofBad')]),
    need_kinds=['tb'],
    apalache=dict(quick=[dict(module='TailBitmapInd', cinit='CInitQ', runs=[('Init', 'IndInv', 0), ('IndInit', 'IndInv', 1), ('IndInit', 'Property', 0)],
                              refute=[('IndInit', 'BadNeverMoves', 1)])],
                  thorough=[dict(module='TailBitmapInd', cinit='CInitT', runs=[('Init', 'IndInv', 0), ('IndInit', 'IndInv', 1), ('IndInit', 'Property', 0)],
                                 refute=[('IndInit', 'BadNeverMoves', 1), ('IndInit', 'BadNoBits', 1)])]),
    rule='a case is one TailBitmap history (New, then Set/Compact/Get/Get1 calls): structured fills of 1-5 words in six orders, '
         'layout histories (8-30 words full/partial/empty set in a seeded word order, word 0 completed last so that one Compact walks a long run, then growth by several words and the holes closed one by one), '
         'TLC-simulated histories of macro-steps (Gen_TailBitmap: fill a word, single bits around offset/end/far beyond, close a hole, Compact), seeded random histories of 60-360 calls, '
         '4 (thorough 16) histories crossing the 1024-word reclaim threshold with already-full words and live bits behind the crossing word, far-bit-first histories; '
         'every call is one trace event with the projected state (Offset, len(Words), stored 1-bits) judged by Trace_TailBitmap; '
         'thorough tier: histories with Sets and probes 2^31 .. 2^32 + 70 bits beyond the Offset (positions as pairs, Trace_TailBitmapFar); '
         'distinct = distinct operation sequences (sha256 of the inputs), non-trivial = at least one call after New',
    assumptions=TRUST + ['Get/Get1 are probed only at indexes up to the highest index ever set (the property\'s own domain)'],
)

PROPS['C18'] = dict(
    trace=dict(module='Trace_SectionWriter', cfg='Trace_SectionWriter.cfg'),
    bindings=[dict(drv='C18', trace=dict(module='Trace_SectionWriter', cfg='Trace_SectionWriter.cfg'),
                   gen=dict(quick=[sim('Gen_SectionWriter', 'Gen_SectionWriter.cfg', 400, 20, 'sw')],
                            thorough=[sim('Gen_SectionWriter', 'Gen_SectionWriter_t.cfg', 10000, 24, 'sw', shards=8)])),
              # a SectionWriter over a SectionWriter: the composition SectionWriter2 (two instances of the machine)
              dict(drv='C18n', trace=dict(module='Trace_SectionWriter2', cfg='Trace_SectionWriter2.cfg'), shards=dict(quick=4, thorough=8))],
    mc=dict(quick=[mc('MC_SectionWriter', 'MC_SectionWriter_q.cfg', expect_min_distinct=5000), mc('MC_SectionWriter2', 'MC_SectionWriter2_q.cfg', expect_min_distinct=5000)],
            thorough=[mc('MC_SectionWriter', 'MC_SectionWriter.cfg', expect_min_distinct=5000), mc('MC_SectionWriter2', 'MC_SectionWriter2.cfg', expect_min_distinct=200000)]),
    need_kinds=['sw', 'swn'],
    # (the false variants, which must turn out unprovable, make every back end run into its time limit: thorough tier only)
    tlaps=dict(quick=[dict(module='SectionWriterProof'), dict(module='SectionWriter2Proof')],
               thorough=[dict(module='SectionWriterProof', refute='SectionWriterProofBad'), dict(module='SectionWriter2Proof', refute='SectionWriter2ProofBad')]),
    apalache=dict(quick=[dict(module='SectionWriterInd', cinit='CInit', runs=[('Init', 'IndInv', 0), ('IndInit', 'IndInv', 1), ('IndInit', 'Property', 0)],
                              refute=[('IndInit', 'BadNeverWrites', 1), ('IndInit', 'BadCursorStays', 1), ('IndInit', 'BadNeverShort', 1)])],
                  thorough=[dict(module='SectionWriterInd', cinit='CInit', runs=[('Init', 'IndInv', 0), ('IndInit', 'IndInv', 1), ('IndInit', 'Property', 0)],
                                 refute=[('IndInit', 'BadNeverWrites', 1), ('IndInit', 'BadCursorStays', 1), ('IndInit', 'BadNeverShort', 1)])]),
    rule='a case is one SectionWriter/AtToWriter history over a scripted underlying io.WriterAt (accepts k bytes, optionally fails): '
         'seeded sequences of Write/WriteAt/Seek/Size with buffers ending exactly at, one before and beyond the section end, every whence incl. invalid ones, '
         'offsets before the section start, cursor probes by Seek(0,SeekCurrent); every call is one trace event (arguments, returned count, error class, every underlying call with offset and bytes) '
         'judged by Trace_SectionWriter; swn: a SectionWriter laid over another SectionWriter (offsets and lengths so that the outer section ends before, at and beyond the inner one), '
         'operations on the outer and directly on the inner section, judged by Trace_SectionWriter2 (the composition of two instances of the machine); '
         'distinct = distinct operation sequences, non-trivial = at least one call after New',
    assumptions=TRUST + ['the underlying writer obeys io.WriterAt (accepts at most what it is offered, reports an error when it accepts less)',
                         'offsets are below 2^29 (TLC integers); AtToWriter is exercised without SeekEnd (its limit is MaxInt64 by construction)'],
)

TB = dict(module='Trace_Bitmap', cfg='Trace_Bitmap.cfg')
PROPS['C01'] = dict(
    trace=TB, mc=dict(quick=[mc('MC_BitmapRank', 'MC_BitmapRank_q.cfg', expect_min_distinct=50000)], thorough=[mc('MC_BitmapRank', 'MC_BitmapRank.cfg', expect_min_distinct=1000000)]), need_kinds=['rank', 'masks'],
    rule='a case is one bitmap (0-10 words, plus a few of 20-50): every constant word pattern x every word count, all single-bit and adjacent-two-bit bitmaps over 3 words, '
         'seeded mixes of 21 word patterns with empty words; the event holds IndexRank64 (default/false/true), IndexRank128 and the (rank, bit) pair of Rank64 (both indexes) '
         'and Rank128 at EVERY position, judged against Bitmap!Rank/BitAt; plus one event with the six exported mask tables complete; '
         'distinct = distinct bitmaps, non-trivial = at least one 1-bit',
    assumptions=TRUST,
)
PROPS['C02'] = dict(
    trace=TB, mc=dict(quick=[mc('MC_BitmapSelect', 'MC_BitmapSelect_q.cfg', expect_min_distinct=25000)], thorough=[mc('MC_BitmapSelect', 'MC_BitmapSelect_a.cfg', expect_min_distinct=500000), mc('MC_BitmapSelect', 'MC_BitmapSelect_b.cfg', expect_min_distinct=500000)]), need_kinds=['select'],
    rule='a case is one bitmap: shared pattern families, every single-byte word b<<8j (the whole in-byte lookup table), exactly 32k-1/32k/32k+1 ones, '
         'first/last word only with 1-6 empty words between, single bits at 7/8/15/16/31/32/63; the event holds IndexSelect32, both IndexSelect32R64 slices and the result pair of '
         'Select32 and Select32R64 for EVERY i in [0,n), judged against the ascending enumeration of the 1-bits; distinct = distinct bitmaps, non-trivial = at least one 1-bit',
    assumptions=TRUST,
)
PROPS['C13'] = dict(
    trace=TB, mc=dict(quick=[mc('MC_BitmapScan', 'MC_BitmapScan_q.cfg', expect_min_distinct=10000)], thorough=[mc('MC_BitmapScan', 'MC_BitmapScan.cfg', expect_min_distinct=300000)]), need_kinds=['scan'],
    rule='a case is one bitmap with up to 450 ranges (i,end) whose ends are 64k-1/64k/64k+1, the neighbours of 1-bits and random points, 0<=i<=end<=64*len, i inside; '
         'NextOne and PrevOne (end>=1) at every range judged against Min/Max of {p in ones : i<=p<end}; families: shared patterns, all single-bit bitmaps over 6 words, '
         '1-bits separated by 1-5 empty words at offsets 0/63; distinct = distinct (bitmap, ranges), non-trivial = bitmap has a 1-bit',
    assumptions=TRUST,
)
PROPS['C14'] = dict(
    trace=TB, mc=dict(quick=[mc('MC_BitmapPack', 'MC_BitmapPack_join_q.cfg', expect_min_distinct=1000), mc('MC_BitmapPack', 'MC_BitmapPack_slice_q.cfg', expect_min_distinct=10000)], thorough=[mc('MC_BitmapPack', 'MC_BitmapPack_join.cfg', expect_min_distinct=30000), mc('MC_BitmapPack', 'MC_BitmapPack_slice.cfg', expect_min_distinct=300000)]), need_kinds=['join', 'slice'],
    rule='join: all seven widths x value lists of length 0..3*64/w+1 with values 0, 2^w-1, 2^w (must vanish), all-ones, random; the returned words and Getw at every index are judged; '
         'slice: pattern bitmaps x ranges from word-boundary and random end points, result length and bits and the untouched input are judged; '
         'distinct = distinct inputs, non-trivial = non-empty value list / non-empty range',
    assumptions=TRUST,
)

PROPS['C12'] = dict(
    bindings=[dict(drv='C12', trace=TB),
              dict(drv='C12b', trace=dict(module='Trace_Builder', cfg='Trace_Builder.cfg'), shards=dict(quick=4, thorough=8),
                   gen=dict(quick=[sim('Gen_Builder', 'Gen_Builder.cfg', 300, 16, 'bld')],
                            thorough=[sim('Gen_Builder', 'Gen_Builder.cfg', 8000, 16, 'bld', shards=8)]))],
    mc=dict(quick=[mc('MC_Builder', 'MC_Builder.cfg', expect_min_distinct=100000), mc('MC_BitmapBuild', 'MC_BitmapBuild_q.cfg', expect_min_distinct=10000)],
            thorough=[mc('MC_Builder', 'MC_Builder_t.cfg', expect_min_distinct=100000), mc('MC_BitmapBuild', 'MC_BitmapBuild.cfg', expect_min_distinct=100000)]),
    tlaps=dict(quick=[dict(module='BuilderProof')], thorough=[dict(module='BuilderProof', refute='BuilderProofBad')]),
    need_kinds=['of', 'ofmany', 'toarray', 'bld'],
    apalache=dict(quick=[dict(module='BuilderInd', cinit='CInitQ', runs=[('Init', 'IndInv', 0), ('IndInit', 'IndInv', 1)], refute=[('IndInit', 'BadNeverGrows', 1)])],
                  thorough=[dict(module='BuilderInd', cinit='CInitT', runs=[('Init', 'IndInv', 0), ('IndInit', 'IndInv', 1)], refute=[('IndInit', 'BadNeverGrows', 1)])]),
    rule='of: ascending position lists (empty, word-boundary positions, large gaps) x optional n (negative, below/at/above last+1, 64k, 64k+-1) with Get/Get1/SafeGet/SafeGet1 probes at every listed position +-1 and outside; '
         'ofmany: 0-4 segments incl. size 0 and overshooting last segments; toarray: pattern bitmaps with Of(ToArray(b)); bld: Builder histories (random and TLC-simulated) with the projected state after every call; '
         'distinct = distinct inputs, non-trivial = non-empty list or explicit n / at least one call after NewBuilder',
    assumptions=TRUST + ['position lists are ascending and non-negative, sizes are non-negative, OfMany\'s shifted concatenation is ascending (Of\'s contract)'],
)

TBM = dict(module='Trace_Bmtree', cfg='Trace_Bmtree.cfg')
PROPS['C03'] = dict(
    trace=TBM, builds=['plain', 'debug'], mc=dict(quick=[mc('MC_BmIndex', 'MC_BmIndex_q.cfg', expect_min_distinct=25000)], thorough=[mc('MC_BmIndex', 'MC_BmIndex.cfg', expect_min_distinct=200000)]), need_kinds=['p2i'],
    rule='a case is one level mask with a list of nodes (l, v): ALL masks of height <= 7 (thorough <= 10) with ALL their nodes; for heights 1..30 the full tree, the leaf-only tree, '
         'masks with one missing / one present level, sparse and random masks, with the root, the all-zero and all-one path of every length and 60 random nodes; '
         'PathToIndexLoose on every node and PathToIndex on every node of a stored level, in the release build and in the -tags debug build (a contract panic is an abnormal observation), '
         'judged against the closed pre-order level sum Bmtree!Idx2; distinct = distinct (mask, nodes), non-trivial = height >= 1',
    assumptions=TRUST + ['path words are built with the library\'s own NewPath (C10 binds NewPath)'],
)
PROPS['C04'] = dict(
    trace=TBM, mc=dict(quick=[mc('MC_BmEnum', 'MC_BmEnum_q.cfg', expect_min_distinct=50000)], thorough=[mc('MC_BmEnum', 'MC_BmEnum.cfg', expect_min_distinct=1000000)]), need_kinds=['allpaths', 'decode', 'encdec'],
    rule='allpaths: every mask of height <= 4 (thorough <= 6) x from/to drawn from every path word, word+-1 in either half and extreme words (incl. from > to), '
         'tall trees (height 6..30) with windows of <= 300 full-length values whose lower halves are real masks, masks+-1, non-contiguous or noise; '
         'decode: masks of height <= 10/12 with bitmaps shorter, exact and longer than bitmapSize bits incl. bit 63 of the last word; encdec: PathToIndex-encode a node set then Decode; '
         'judged as: every returned path is a stored node inside the window / with its index bit set, strictly ascending, and the count equals the number of such nodes; '
         'distinct = distinct inputs, non-trivial = height >= 1',
    assumptions=TRUST + ['completeness of Decode is judged by counting, using that PathToIndex is a bijection onto [0, bitmapSize) (C03, MC_BmIndex)'],
)
PROPS['C05'] = dict(
    trace=TBM, mc=dict(quick=[mc('MC_BmIndex', 'MC_BmIndex_q.cfg', expect_min_distinct=25000)], thorough=[mc('MC_BmIndex', 'MC_BmIndex.cfg', expect_min_distinct=200000)]), need_kinds=['i2p', 'i2pscan'],
    rule='i2pscan: the driver walks EVERY index of every height <= 24 (thorough: all heights 0..30, i.e. all 2^32-33 pairs) evaluating only the property\'s own round trip and well-formedness as an input SELECTOR; every disagreeing index (<= 40 per 2^22 chunk) and 7 agreeing ones per chunk go into an ordinary event judged by TLC; '
         'i2p: a case is a height with a batch of indexes: EVERY index of every height <= 10 (thorough <= 13); for heights 5..30 the indexes 0..3, h-1..h+2, 2^k+d, 2^k+h+d, last-2^k+d, middle and last, plus batches of 300 random indexes; '
         'IndexToPath judged against the pre-order descent Bmtree!PathOfIndex and PathToIndex(full, result) = index; distinct = distinct (height, indexes), non-trivial = height >= 1',
    assumptions=TRUST,
)
PROPS['C10'] = dict(
    trace=TBM, mc=dict(quick=[mc('MC_BmPath', 'MC_BmPath_q.cfg', expect_min_distinct=5000)], thorough=[mc('MC_BmPath', 'MC_BmPath.cfg', expect_min_distinct=20000), mc('MC_BmEnum', 'MC_BmEnum_q.cfg', expect_min_distinct=50000)]), need_kinds=['pathw'],
    rule='a case is a height with a list of nodes (bit sequences) and index pairs: ALL nodes of heights <= 6 (thorough <= 8) in pre-order with all adjacent pairs both ways and 400 random pairs; '
         'all heights 0..32 x all lengths x prefixes {0,1,2^l-1,2^(l-1),random}; random related pairs (prefix, extension, sibling branch) on heights 1..32; '
         'NewPath, PathLen, PathHeight, PathBits, PathMask, PathStr on every node and Go\'s < on the two words of every pair, judged against Bmtree!PathOnes and PreLess; '
         'distinct = distinct inputs, non-trivial = height >= 1',
    assumptions=TRUST,
)
PROPS['C11'] = dict(
    trace=TBM, mc=dict(quick=[mc('MC_FromStr32', 'MC_FromStr32_q.cfg', expect_min_distinct=30000)], thorough=[mc('MC_FromStr32', 'MC_FromStr32.cfg', expect_min_distinct=100000)]), need_kinds=['fromstr32', 'pathsof'],
    rule='fromstr32: ALL (from, w) with from in 0..8|s|+9 and w in 0..32 for strings of 0..6 bytes over boundary bytes; random strings up to 39 bytes with from near/at/beyond the end; '
         'each event holds FromStr32, PathOf and PathStr(PathOf); pathsof: key lists with duplicates, keys equal to their predecessor and equal paths non-adjacent, with and without dedup; '
         'judged against the MSB-first bits of the string (Strings!SBit); distinct = distinct inputs, non-trivial = non-empty string and w >= 1',
    assumptions=TRUST,
)

TS = dict(module='Trace_Strs', cfg='Trace_Strs.cfg')
PROPS['C08'] = dict(
    trace=TS, mc=dict(quick=[mc('MC_BitWord', 'MC_BitWord_q.cfg', expect_min_distinct=800), mc('MC_BitWord', 'MC_BitWord_fd_q.cfg', expect_min_distinct=30000)], thorough=[mc('MC_BitWord', 'MC_BitWord.cfg', expect_min_distinct=13000), mc('MC_BitWord', 'MC_BitWord_fd.cfg', expect_min_distinct=1000000)]), need_kinds=['bw', 'bwtostr', 'bwfd', 'bwstrs'],
    rule='bw: (string, width) for ALL 1-byte strings x 4 widths, 2-byte strings (quick: 1500 sampled; thorough: all 65,536) and random strings up to 40 bytes: FromStr, Get at every index, ToStr(FromStr) and ToStr of every prefix of the word list; '
         'bwtostr: in-range word lists; bwfd: FirstDiff on pairs with common prefixes of every length and single-bit differences over ~60 windows (from >= end, end beyond either string, end = -1); bwstrs: FromStrs/ToStrs; '
         'judged against Strs!FromStrD/ToStrD/FirstDiffD; distinct = distinct inputs, non-trivial = non-empty string',
    assumptions=TRUST,
)
PROPS['C09'] = dict(
    trace=TS, mc=dict(quick=[mc('MC_BitStr', 'MC_BitStr_q.cfg', expect_min_distinct=40000)], thorough=[mc('MC_BitStr', 'MC_BitStr.cfg', expect_min_distinct=1500000)]), need_kinds=['bscmp', 'bsupto'],
    builds=['plain', 'checkptr'],   # StrCmpUpto builds a slice header through unsafe
    rule='bscmp: groups of 8 related ranges (prefixes of every bit length, one-bit differences, extensions, aligned/unaligned ends, empty ranges, unaligned from) over strings of 0..20 bytes crossing the 8-byte switch, Len of each and Cmp of ALL ordered pairs; '
         'every (from,to) of strings of <= 3 bytes; bsupto: one encoded range with 12 plain strings (empty, the payload, byte prefixes, one byte / much longer, garbage in masked-out bits, one flipped bit): CmpUpto, StrCmpUpto and StrCmpUpto after a call with an empty string; '
         'judged against lexicographic order of the bit strings (Strings!LexCmp); distinct = distinct inputs',
    assumptions=TRUST,
)
PROPS['C16'] = dict(
    trace=TS, mc=dict(quick=[mc('MC_SigBits', 'MC_SigBits_q.cfg', expect_min_distinct=30000)], thorough=[mc('MC_SigBits', 'MC_SigBits.cfg', expect_min_distinct=200000)]), need_kinds=['fdb', 'cntp'],
    rule='key sets of 2-16 keys with a shared prefix of 0..20 bytes (crossing 8 and 16), tails over {00,01,a,b,80,ff} / {a,b,c} / all bytes, single-bit differences in bytes 7,8,9,15,16, key+NULs, key = prefix of successor, empty key; '
         'fdb: FirstDiffBits (sorted and shuffled); cntp: New(keys).CountPrefixes over all sub-ranges (small sets) and 14 random sub-ranges x m in {1,2,3,8,9,17,64}; judged against Strs!FirstDiffBitD / CountPrefixesD; '
         'distinct = distinct inputs, non-trivial = at least 2 keys',
    assumptions=TRUST,
)
PROPS['C17'] = dict(
    trace=TS, mc=dict(quick=[mc('MC_SigBits', 'MC_SigBits_q.cfg', expect_min_distinct=30000)], thorough=[mc('MC_SigBits', 'MC_SigBits.cfg', expect_min_distinct=200000)]), need_kinds=['shard'],
    rule='strictly ascending key lists (families of C16, plus all keys differing in the first byte, single key, 100-2000 keys over a 3-letter alphabet) x maxSize in {1,2,3,len-1,len,len+1,...}; '
         'the returned (lengths, boundaries) are judged by the relation Strs!ShardOK (any valid sharding is accepted); distinct = distinct inputs, non-trivial = at least 2 keys',
    assumptions=TRUST,
)

TPB = dict(module='Trace_PbFrame', cfg='Trace_PbFrame.cfg')
PROPS['C06'] = dict(
    trace=TPB, mc=dict(quick=[mc('MC_PbFrame', 'MC_PbFrame_q.cfg', expect_min_distinct=30000)], thorough=[mc('MC_PbFrame', 'MC_PbFrame_t.cfg', expect_min_distinct=5000000, xmx='16g')]), need_kinds=['pb'],
    rule='a case is one stream history: 1-4 frames marshalled back to back (legacy Marshal/Unmarshal messages with and without GetVersion, real protobuf BytesValue/StringValue; bodies of 0,1,2,31,32,33,100,300 and 4000-6000 bytes; '
         'versions of length 0,1,5,9,15,16 incl. embedded and leading NUL and non-ASCII bytes), then Unmarshal of each frame into REUSED destination messages through a scripted reader (whole, 1 byte, fixed and mixed chunk sizes), '
         'ReadHeader on the last frame and a final read at end of stream; every call is one trace event (bytes written, n, error class, version, re-encoded message, bytes consumed) judged by Trace_PbFrame; distinct = distinct histories',
    assumptions=TRUST + ['proto.Marshal/Unmarshal of the message itself is trusted; the message encoding is opaque to the specification', 'the io.Writer/io.Reader obey their contracts'],
)
PROPS['C07'] = dict(
    trace=TPB, mc=dict(quick=[mc('MC_PbFrame', 'MC_PbFrame_q.cfg', expect_min_distinct=30000)], thorough=[mc('MC_PbFrame', 'MC_PbFrame_t.cfg', expect_min_distinct=5000000, xmx='16g')]), need_kinds=['pb'], rlimit_as=24 << 30,
    gen=dict(quick=[sim('Gen_PbFrame', 'Gen_PbFrame.cfg', 400, 14, 'pb')], thorough=[sim('Gen_PbFrame', 'Gen_PbFrame.cfg', 12000, 14, 'pb', shards=8)]),
    rule='fault enumeration through the specification\'s environment actions: for 10 (thorough 60) messages EVERY cut point 0 <= k < len(frame)+8 with EOF and with an injected read error (bodies ~4 KiB: every 97th plus 4 KiB boundaries), '
         'ReadHeader at the cut points, EVERY writer failure point on the header write and on the body write (partial acceptance), the truncated output read back; corrupt headers: header-size in {0,31,33,2^32,2^63,2^64-1,...} and '
         'body-size in {avail-1,avail,avail+1,2^24,2^31,2^40,2^47,2^62,2^63-1,2^63,2^64-1}; arbitrary bytes; random fault schedules over several frames; judged by Trace_PbFrame (outcome relation from io.ReadFull semantics); distinct = distinct histories',
    assumptions=TRUST + ['proto.Marshal/Unmarshal of the message itself is trusted', 'the driver runs under RLIMIT_AS so that an allocation from an untrusted size kills the driver (reported as crash), not the sandbox'],
)

PROPS['C20'] = dict(
    trace=dict(module='Trace_SizeOf', cfg='Trace_SizeOf.cfg'), mc=dict(quick=[], thorough=[]), need_kinds=['size'],
    builds=['plain', 'checkptr'],   # size/sizeof.go converts pointers through unsafe: also judged in a build with checkptr instrumentation (what -race builds use)
    gen=dict(quick=[bfs('Gen_SizeOf', 'Gen_SizeOf.cfg', 'size', shards=2)], thorough=[bfs('Gen_SizeOf', 'Gen_SizeOf_t.cfg', 'size', shards=4)]),
    rule='a case is a typed value tree (type + content description) rebuilt with package reflect: every scalar kind (incl. int, uint, uintptr, complex) at top level, in a slice, an array, behind a nil and a non-nil pointer, '
         'in an interface-typed struct field and as a map value; seeded random trees of depth 1..4 (thorough 6): nested slices/arrays/maps/pointers/interfaces/structs, all-scalar structs with mixed field widths, nil and zero-length containers, '
         'maps keyed by ints, strings, structs and arrays, the same pointer stored twice; size.Of and the first line of size.Stat (depth 0 and 3) judged against SizeOf!SizeD; distinct = distinct descriptions, non-trivial = not the nil argument',
    assumptions=TRUST + ['64-bit platform header sizes (16/24/8/8/16)', 'the value is rebuilt from its description by reflect (StructOf/SliceOf/MapOf/PtrTo); the description is never derived from the value'],
)

PROPS['C19'] = dict(
    trace=dict(module='Trace_Readers', cfg='Trace_Readers.cfg'), builds=['race'],
    mc=dict(quick=[mc('Readers', 'MC_Readers.cfg'), mc('Readers', 'MC_Readers_buggy.cfg', expect_violation='MemUnchanged')],
            thorough=[mc('Readers', 'MC_Readers.cfg'), mc('Readers', 'MC_Readers_buggy.cfg', expect_violation='MemUnchanged')]),
    tlaps=dict(quick=[dict(module='ReadersProof')], thorough=[dict(module='ReadersProof', refute='ReadersProofBad')]),
    need_kinds=['conc'], confirm_retries=4, trust_kinds=['RaceReport'], shards=dict(quick=4, thorough=8),
    rule='a case is one set of shared inputs (bitmaps, rank/select indexes, keys, a shared SigBits object, plain and encoded bit strings, paths, level masks) built from a seed; in a -race build 8 goroutines released together '
         'each run the whole list of 30 calls (Rank64/128, Select32/R64, NextOne/PrevOne, Slice aligned and unaligned, ToArray, indexes, Join/Getw, Get*, FromStr32, PathsOf, PathToIndex/Loose, IndexToPath, path accessors, '
         'bitstr Cmp/CmpUpto/StrCmpUpto, bitword conversions, FirstDiffBits, ShardByPrefix, AllPaths, CountPrefixes with three maxitem values on ONE SigBits, Decode with five bitmap sizes) in their own orders for 3 (thorough 6) rounds, '
         'BEFORE any sequential call; then sequential forward and reverse passes; digests of every shared object and of the exported and (via the verif hook) unexported tables before, between and after; '
         'judged by Trace_Readers: every execution of a call carries the same result digest, every snapshot equals the initial one, a race-detector report has no action; distinct = distinct seeds',
    assumptions=TRUST + ['the Go race detector (it reports only conflicting accesses it observed)', 'schedules are those the Go scheduler produced on this machine; they are not enumerated'],
    level_note='Schedules are sampled (8 goroutines x 30 calls x rounds per case), not enumerated; the interleaving model (MC_Readers) is exhaustive only over 3 processes x 2 calls. Trusted: the Go race detector, TLC, the digest projection.',
)

# ---- specification growth beyond the listed properties (not in MANIFEST.json; evidence under evidence_extra/)
PROPS['X01'] = dict(
    extra=True, trace=TB, mc=dict(quick=[], thorough=[]), need_kinds=['selsingle', 'selu64', 'fmt'],
    rule='unexported select family through the verif hooks (select32single at negative, valid and too large i; indexSelectU64 / selectU64Indexed on word patterns) and bitmap.Fmt on every integer type and slices',
    assumptions=TRUST,
)
PROPS['X02'] = dict(
    extra=True, trace=dict(module='Trace_Misc', cfg='Trace_Misc.cfg'), mc=dict(quick=[], thorough=[]), need_kinds=['minmax', 'toslice', 'attoreader'],
    rule='mathext/util Min/Max/Clap of all ten integer types (values within +-2^30), typehelper.ToSlice, iohelper.AtToReader with arbitrary read sizes',
    assumptions=TRUST,
)
PROPS['X05'] = dict(
    extra=True, trace=dict(module='Trace_SizeOf', cfg='Trace_SizeOf.cfg'), mc=dict(quick=[], thorough=[]), need_kinds=['stat'],
    rule='size.Stat beyond its first line: the SHAPE of the rendering (per line: indentation level and the size printed on it) for seeded typed value trees of depth 1..4, rendering depth 0..4, maxItem in {-1, 0, 1, 2, 3, 100}, '
         'judged against SizeOf!StatD (type names and labels are not modelled; maps with more than one entry are not generated: Go\'s map order is random)',
    assumptions=TRUST,
)
PROPS['X04'] = dict(
    extra=True, trace=dict(module='Trace_Vers', cfg='Trace_Vers.cfg'), mc=dict(quick=[], thorough=[]), need_kinds=['vers'],
    gen=dict(quick=[bfs('Gen_Vers', 'Gen_Vers.cfg', 'vers', shards=4)], thorough=[bfs('Gen_Vers', 'Gen_Vers.cfg', 'vers', shards=8)]),
    rule='package vers: TLC enumerates versions x specs over small sets (Gen_Vers: every operator, every ordering of two versions incl. numeric pre-releases and 9 vs 10 in a component; single comparators, conjunctions, disjunctions), '
         'plus seeded versions / specs with up to 3 x 3 comparators, versions close to the comparator, several spellings of = and !=, malformed version strings; vers.Check and vers.IsCompatible judged against Vers!CheckD',
    assumptions=TRUST + ['pre-releases are numeric ("-N"); build metadata and wildcard ranges are not generated'],
)
PROPS['X03'] = dict(
    extra=True, trace=dict(module='Trace_TreeStr', cfg='Trace_TreeStr.cfg'), mc=dict(quick=[], thorough=[]), need_kinds=['tree'],
    shards=dict(quick=1, thorough=1),
    gen=dict(quick=[bfs('Gen_TreeStr', 'Gen_TreeStr.cfg', 'tree', shards=8)], thorough=[bfs('Gen_TreeStr', 'Gen_TreeStr.cfg', 'tree', shards=8)]),
    rule='package tree: every tree of depth <= 2 with fan-out <= 2 over small id/info/leaf sets, enumerated by TLC (Gen_TreeStr), DepthFirst visit order and String rendering judged against TreeStr',
    assumptions=TRUST,
)
