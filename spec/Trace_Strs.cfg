SPECIFICATION TraceSpec
CONSTANTS
  BB = 8
POSTCONDITION TraceAccepted
CHECK_DEADLOCK FALSE
