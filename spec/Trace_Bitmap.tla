--------------------------- MODULE Trace_Bitmap ---------------------------
(* Trace validation of the pure functions of package bitmap (C01, C02, C12 pure part, C13,   *)
(* C14).  Every event records one batch of calls on one input (e.g. Rank64/Rank128 at every   *)
(* position of one bitmap); the event is accepted iff every recorded result is the one the     *)
(* definition layer (module Bitmap) gives.  There is no state besides the position in the trace.*)
EXTENDS Bitmap, TraceIO

VARIABLE l
Ev == Trace[l]
IsEvent(k) == l <= Len(Trace) /\ Ev.k = k /\ Ev.abn = "" /\ l' = l + 1

S(bm)  == ToSet(bm.ones)
InOK(bm) == IsAsc(bm.ones) /\ WellFormed(bm.nw, S(bm))
SameBM(b, d) == b.nw = d.nw /\ ToSet(b.ones) = d.ones /\ IsAsc(b.ones)

\* ---- C01
MasksOK(o) ==
    /\ Len(o.Mask) = W + 1 /\ Len(o.RMask) = W + 1
    /\ Len(o.MaskUpto) = W /\ Len(o.RMaskUpto) = W /\ Len(o.Bit) = W /\ Len(o.RBit) = W
    /\ \A j \in 0..W : ToSet(o.Mask[j + 1]) = 0..(j - 1) /\ ToSet(o.RMask[j + 1]) = j..(W - 1)
    /\ \A j \in 0..(W - 1) :
          /\ ToSet(o.MaskUpto[j + 1]) = 0..j /\ ToSet(o.RMaskUpto[j + 1]) = (j + 1)..(W - 1)
          /\ ToSet(o.Bit[j + 1]) = {j} /\ ToSet(o.RBit[j + 1]) = (0..(W - 1)) \ {j}
TraceMasks == IsEvent("masks") /\ MasksOK(Ev.out)

RankOK(in, o) ==
    LET s == S(in.bm)  nw == in.bm.nw  N == W * nw IN
    /\ InOK(in.bm)
    /\ o.idx64  = IdxRank64D(s, nw, FALSE) /\ o.idx64f = IdxRank64D(s, nw, FALSE)
    /\ o.idx64t = IdxRank64D(s, nw, TRUE)
    /\ o.idx128 = IdxRank128D(s, nw)
    /\ RankVecOK(s, N, o.r64) /\ RankVecOK(s, N, o.r64t) /\ RankVecOK(s, N, o.r128)
TraceRank == IsEvent("rank") /\ RankOK(Ev.in, Ev.out)

\* ---- C02
SelectOK(in, o) ==
    LET ones == in.bm.ones  nw == in.bm.nw IN
    /\ InOK(in.bm)
    /\ o.sidx = IdxSelectD(ones) /\ o.sidx2 = IdxSelectD(ones)
    /\ o.ridx = IdxRank64D(S(in.bm), nw, TRUE)
    /\ SelectVecOK(ones, nw, o.sel) /\ SelectVecOK(ones, nw, o.selr)
TraceSelect == IsEvent("select") /\ SelectOK(Ev.in, Ev.out)

\* long bitmaps: the indexes complete, Rank64/Rank128 and both selects at sampled arguments
RankLOK(in, o) ==
    LET nw == in.nw  L == in.list  d == in.dense
        ob(i) == OnesBeforeL(d, L, i) IN
    /\ IsAsc(L) /\ (Len(L) > 0 => L[1] >= 0 /\ L[Len(L)] < W * nw)
    /\ o.idx64 = [k \in 1..nw |-> ob(W * (k - 1))]
    /\ o.idx64t = [k \in 1..(nw + 1) |-> ob(W * (k - 1))]
    /\ o.idx128 = [k \in 1..(nw \div 2 + 1) |-> ob(Min2(2 * W * (k - 1), W * nw))]
    /\ \A j \in DOMAIN in.pos :
          LET want == <<ob(in.pos[j]), BitAtL(d, L, in.pos[j])>> IN
          /\ in.pos[j] >= 0 /\ in.pos[j] < W * nw
          /\ o.r64[j] = want /\ o.r64t[j] = want /\ o.r128[j] = want
TraceRankL == IsEvent("rankl") /\ RankLOK(Ev.in, Ev.out)

SelectLOK(in, o) ==
    LET nw == in.nw  L == in.list  d == in.dense  n == NOnesL(d, L, nw)
        sel(i) == <<SelectL(d, L, i), IF i + 1 < n THEN SelectL(d, L, i + 1) ELSE W * nw>> IN
    /\ IsAsc(L) /\ (Len(L) > 0 => L[1] >= 0 /\ L[Len(L)] < W * nw)
    /\ o.sidx = [j \in 1..CeilDiv(n, K) |-> SelectL(d, L, K * (j - 1))] /\ o.sidx2 = o.sidx
    /\ o.ridx = [k \in 1..(nw + 1) |-> OnesBeforeL(d, L, W * (k - 1))]
    /\ \A j \in DOMAIN in.is :
          /\ in.is[j] >= 0 /\ in.is[j] < n
          /\ o.sel[j] = sel(in.is[j]) /\ o.selr[j] = sel(in.is[j])
TraceSelectL == IsEvent("selectl") /\ SelectLOK(Ev.in, Ev.out)

\* ---- periodic bitmaps of up to 2^31 - 64 bits (the int32 limit of the package's positions; thorough tier).
\* Word i is all ones, the even bits, or bits 0 and 63, for i % 3 = 0, 1, 2.  Rank, select and the scans have closed
\* forms in the period of 192 bits (98 ones); the index slices are judged at sampled entries, the queries at sampled
\* positions / ranks / ranges.  (W * nw must stay below 2^31 inside TLC: nw <= 2^25 - 1.)
PB(k) == LET w == (k \div 64) % 3  b == k % 64 IN CASE w = 0 -> TRUE [] w = 1 -> b % 2 = 0 [] OTHER -> b \in {0, 63}
PPre(r) == Cardinality({k \in 0..(r - 1) : PB(k)})                      \* ones among the first r bits of a period
RankP(pos) == ((pos \div 192) * 98) + PPre(pos % 192)
BitP(pos) == IF PB(pos) THEN 1 ELSE 0
SelectP(i) == ((i \div 98) * 192) + (CHOOSE k \in 0..191 : PB(k) /\ PPre(k) = i % 98)
\* (i + 191 may leave TLC's integers near 2^31: the upper bound is formed without it)
NextP(i, end) == LET hi == IF end - 1 - i > 191 THEN i + 191 ELSE end - 1
                     C == {k \in i..hi : PB(k)} IN IF C = {} THEN -1 ELSE Min(C)
PrevP(i, end) == LET C == {k \in Max2(i, end - 192)..(end - 1) : PB(k)} IN IF C = {} THEN -1 ELSE Max(C)
PerBigOK(in, o) ==
    LET nw == in.nw  N == W * nw  n == RankP(N)
        sel(i) == <<SelectP(i), IF i + 1 < n THEN SelectP(i + 1) ELSE N>> IN
    /\ nw >= 3 /\ nw <= 33554431
    \* rank (C01)
    /\ (Len(in.pos) > 0 =>
          /\ o.n64 = nw /\ o.n64t = nw + 1 /\ o.n128 = (nw \div 2) + 1
          /\ \A j \in DOMAIN in.wk : LET k == in.wk[j] IN                  \* 0-based entry k of each index
                /\ 0 <= k /\ k < nw
                /\ o.idx64[j] = RankP(W * k) /\ o.idx64t[j] = RankP(W * k)
                /\ o.idx128[j] = RankP(Min2(2 * W * (k \div 2), N))
          /\ o.idx64tlast = n
          /\ \A j \in DOMAIN in.pos :
                LET want == <<RankP(in.pos[j]), BitP(in.pos[j])>> IN
                /\ in.pos[j] >= 0 /\ in.pos[j] < N
                /\ o.r64[j] = want /\ o.r64t[j] = want /\ o.r128[j] = want)
    \* select (C02)
    /\ (Len(in.is) > 0 =>
          /\ o.nsidx = CeilDiv(n, K) /\ o.nsidx2 = o.nsidx /\ o.nridx = nw + 1
          /\ \A j \in DOMAIN in.sj : LET e == in.sj[j] IN                   \* 0-based entry e of the select index
                /\ 0 <= e /\ e < o.nsidx
                /\ o.sidx[j] = SelectP(K * e) /\ o.sidx2[j] = o.sidx[j]
          /\ \A j \in DOMAIN in.is :
                /\ in.is[j] >= 0 /\ in.is[j] < n
                /\ o.sel[j] = sel(in.is[j]) /\ o.selr[j] = sel(in.is[j]))
    \* scans (C13)
    /\ Len(o.next) = Len(in.ranges) /\ Len(o.prev) = Len(in.ranges)
    /\ \A j \in DOMAIN in.ranges :
          LET i == in.ranges[j][1]  end == in.ranges[j][2] IN
          /\ 0 <= i /\ i <= end /\ end <= N /\ i < N
          /\ o.next[j] = NextP(i, end)
          /\ (end >= 1 => o.prev[j] = PrevP(i, end))
TracePerBig == IsEvent("perbig") /\ PerBigOK(Ev.in, Ev.out)

\* ---- C13
ScanOK(in, o) ==
    LET s == S(in.bm)  N == W * in.bm.nw IN
    /\ InOK(in.bm)
    /\ Len(o.next) = Len(in.ranges) /\ Len(o.prev) = Len(in.ranges)
    /\ \A j \in DOMAIN in.ranges :
          LET i == in.ranges[j][1]  end == in.ranges[j][2] IN
          /\ 0 <= i /\ i <= end /\ end <= N /\ i < N          \* the property's domain
          /\ o.next[j] = NextD(s, i, end)
          /\ (end >= 1 => o.prev[j] = PrevD(s, i, end))
TraceScan == IsEvent("scan") /\ ScanOK(Ev.in, Ev.out)
\* scans in sparse bitmaps of up to 2^31 bits (thorough tier); W * nw may be 2^31: bounds stated with divisions
ScanBigOK(in, o) ==
    LET s == S(in.bm)  nw == in.bm.nw
        upto(e) == e \div W < nw \/ (e \div W = nw /\ e % W = 0) IN             \* e <= W * nw
    /\ IsAsc(in.bm.ones) /\ \A j \in DOMAIN in.bm.ones : in.bm.ones[j] >= 0 /\ in.bm.ones[j] \div W < nw
    /\ Len(o.next) = Len(in.ranges) /\ Len(o.prev) = Len(in.ranges)
    /\ \A j \in DOMAIN in.ranges :
          LET i == in.ranges[j][1]  end == in.ranges[j][2] IN
          /\ 0 <= i /\ i <= end /\ upto(end) /\ i \div W < nw
          /\ o.next[j] = NextD(s, i, end)
          /\ (end >= 1 => o.prev[j] = PrevD(s, i, end))
TraceScanBig == IsEvent("scanbig") /\ ScanBigOK(Ev.in, Ev.out)

\* ---- C12 (pure part)
OfOK(in, o) ==
    LET d == OfD(in.pos, IF in.hasn THEN in.n ELSE 0)  s == d.ones IN
    /\ IsAsc(in.pos) /\ (Len(in.pos) > 0 => in.pos[1] >= 0)
    /\ SameBM(o.bm, d)
    /\ o.arr = in.pos /\ o.arrc = in.pos                  \* ToArray(Of(l)) = l
    /\ \A j \in DOMAIN in.probes :
          LET i == in.probes[j] IN
          /\ ToSet(o.sget[j])  = (IF Inside(d.nw, i) THEN GetD(s, i) ELSE {})
          /\ ToSet(o.sget1[j]) = (IF Inside(d.nw, i) THEN Get1D(s, i) ELSE {})
          \* the same on a slice with spare capacity (garbage beyond its length)
          /\ o.sgetc[j] = o.sget[j] /\ o.sget1c[j] = o.sget1[j]
          /\ (Inside(d.nw, i) => ToSet(o.get[j]) = GetD(s, i) /\ ToSet(o.get1[j]) = Get1D(s, i))
TraceOf == IsEvent("of") /\ OfOK(Ev.in, Ev.out)

\* Of / ToArray / Get / SafeGet with positions up to 2^31 - 1 (the largest int32; thorough tier).  last + 1 and W * nw
\* may equal 2^31 and leave TLC's integers: the number of words and "inside" are stated with divisions.
OfBigOK(in, o) ==
    LET L == in.pos  last == L[Len(L)]
        nwant == Max2(last \div W + 1, IF in.hasn /\ in.n >= 1 THEN (in.n - 1) \div W + 1 ELSE 0)
        s == Range(L) IN
    /\ Len(L) >= 1 /\ IsAsc(L) /\ L[1] >= 0
    /\ o.nw = nwant /\ o.ones = L /\ o.arr = L
    /\ \A j \in DOMAIN in.probes :
          LET i == in.probes[j]  inside == i >= 0 /\ i \div W < nwant IN
          /\ ToSet(o.sget[j])  = (IF inside THEN GetD(s, i) ELSE {})
          /\ ToSet(o.sget1[j]) = (IF inside THEN Get1D(s, i) ELSE {})
          /\ (inside => ToSet(o.get[j]) = GetD(s, i) /\ ToSet(o.get1[j]) = Get1D(s, i))
TraceOfBig == IsEvent("ofbig") /\ OfBigOK(Ev.in, Ev.out)
\* Get / Get1 / SafeGet / SafeGet1 on sparse bitmaps of MORE than 2^31 bits (2^25 + 1 .. 2^26 + 3 words; thorough tier):
\* every int32 position lies inside or is negative; "inside" by division (W * nw is beyond TLC's integers)
GetBigOK(in, o) ==
    LET s == S(in.bm)  nw == in.bm.nw IN
    /\ IsAsc(in.bm.ones) /\ \A j \in DOMAIN in.bm.ones : in.bm.ones[j] >= 0 /\ in.bm.ones[j] \div W < nw
    /\ \A j \in DOMAIN in.probes :
          LET i == in.probes[j]  inside == i >= 0 /\ i \div W < nw IN
          /\ ToSet(o.sget[j])  = (IF inside THEN GetD(s, i) ELSE {})
          /\ ToSet(o.sget1[j]) = (IF inside THEN Get1D(s, i) ELSE {})
          /\ (inside => ToSet(o.get[j]) = GetD(s, i) /\ ToSet(o.get1[j]) = Get1D(s, i))
TraceGetBig == IsEvent("getbig") /\ GetBigOK(Ev.in, Ev.out)

\* OfMany: every segment ascending; a position may exceed its segment's size (the shifted concatenation
\* need not be ascending then) as long as every bit fits the words Of allots: ceil(max(sum of sizes,
\* last shifted position + 1) / W)
OfManyOK(in, o) ==
    LET sh == Shifted(in.subs, in.sizes, 0)
        nwD == CeilDiv(Max2(Max2(SumSeq(in.sizes), IF Len(sh) = 0 THEN 0 ELSE sh[Len(sh)] + 1), 0), W)
    IN /\ Len(in.subs) = Len(in.sizes)
       /\ \A k \in DOMAIN in.subs : IsAsc(in.subs[k]) /\ (Len(in.subs[k]) > 0 => in.subs[k][1] >= 0)
       /\ \A j \in DOMAIN sh : sh[j] < W * nwD
       /\ o.bm.nw = nwD /\ ToSet(o.bm.ones) = ToSet(sh) /\ IsAsc(o.bm.ones)
       /\ (IsAsc(sh) => SameBM(o.bm, OfManyD(in.subs, in.sizes)))
TraceOfMany == IsEvent("ofmany") /\ OfManyOK(Ev.in, Ev.out)

\* ToArray(b) lists exactly the set bits ascending; Of(ToArray(b)) = b up to trailing zero words
ToArrayOK(in, o) ==
    /\ InOK(in.bm)
    /\ o.arr = in.bm.ones
    /\ ToSet(o.back.ones) = S(in.bm) /\ IsAsc(o.back.ones)
    /\ o.back.nw <= in.bm.nw
    /\ o.back.nw = (IF Len(in.bm.ones) = 0 THEN 0 ELSE in.bm.ones[Len(in.bm.ones)] \div W + 1)
TraceToArray == IsEvent("toarray") /\ ToArrayOK(Ev.in, Ev.out)

\* ---- C14
JoinOK(in, o) ==
    /\ in.w \in {1, 2, 4, 8, 16, 32, 64}
    /\ SameBM(o.bm, JoinD(in.vals, in.w))
    /\ Len(o.getw) = Len(in.vals)
    /\ \A i \in DOMAIN in.vals : o.getw[i] = LowLimbs(in.vals[i], in.w)
TraceJoin == IsEvent("join") /\ JoinOK(Ev.in, Ev.out)

\* Join of `count` values v_i = i % 65521 (a pattern instead of a list, so that 2^31 bits can be joined):
\* the number of words, Getw at the sampled indexes and the word holding each sampled element
JoinBigOK(in, o) ==
    LET w == in.w  per == W \div w
        val(i) == i % 65521
        lim(i) == <<0, 0, 0, val(i)>> IN
    /\ w \in {16, 32, 64}
    /\ o.nw = (in.count \div per) + (IF in.count % per = 0 THEN 0 ELSE 1)
    /\ \A j \in DOMAIN in.idxs :
          LET i == in.idxs[j]  k == i \div per                       \* word k holds elements k*per .. k*per + per - 1
          IN /\ i >= 0 /\ i < in.count
             /\ o.getw[j] = LowLimbs(lim(i), w)
             /\ ToSet(o.words[j]) = {(e - k * per) * w + b : e \in {x \in (k * per)..(k * per + per - 1) : x < in.count}, b \in 0..15}
                                     \cap {p \in 0..(W - 1) : LET e == k * per + p \div w IN e < in.count /\ BitOfLimbs(lim(e), p % w) = 1}
TraceJoinBig == IsEvent("joinbig") /\ JoinBigOK(Ev.in, Ev.out)

SliceOK(in, o) ==
    /\ InOK(in.bm)
    /\ 0 <= in.from /\ in.from <= in.to /\ in.to <= W * in.bm.nw
    /\ SameBM(o.bm, SliceD(S(in.bm), in.from, in.to))
    /\ o.inafter = in.bm                                 \* the input is left unchanged
TraceSlice == IsEvent("slice") /\ SliceOK(Ev.in, Ev.out)

\* Slice near the end of a bitmap of up to 2^31 bits (W * nw and to + W - 1 would leave TLC's integers: the bounds
\* are stated with divisions instead)
SliceBigOK(in, o) ==
    /\ IsAsc(in.bm.ones) /\ \A j \in DOMAIN in.bm.ones : in.bm.ones[j] >= 0 /\ in.bm.ones[j] \div W < in.bm.nw
    /\ 0 <= in.from /\ in.from <= in.to /\ in.to \div W + (IF in.to % W = 0 THEN 0 ELSE 1) <= in.bm.nw
    \* (SliceD's CeilDiv(to - from, W) adds W - 1 and may leave TLC's integers: the word count is formed by division)
    /\ o.bm.nw = ((in.to - in.from) \div W) + (IF (in.to - in.from) % W = 0 THEN 0 ELSE 1)
    /\ IsAsc(o.bm.ones) /\ ToSet(o.bm.ones) = {p - in.from : p \in {q \in S(in.bm) : q >= in.from /\ q < in.to}}
    /\ o.inafter = in.bm
TraceSliceBig == IsEvent("slicebig") /\ SliceBigOK(Ev.in, Ev.out)

\* ---- beyond the listed properties: the unexported select family (through the verif hooks) and Fmt
SelSingleOK(in, o) ==
    /\ InOK(in.bm)
    /\ Len(o.res) = Len(in.is)
    /\ \A j \in DOMAIN in.is : o.res[j] = Select1D(in.bm.ones, in.bm.nw, in.is[j])
TraceSelSingle == IsEvent("selsingle") /\ SelSingleOK(Ev.in, Ev.out)

\* one word: indexSelectU64 = per byte k the number of 1-bits in the low 8(k+1) bits, with bit 7 of the
\* byte set; selectU64Indexed(w, index, i) = the position of the i-th 1-bit of w
SelU64OK(in, o) ==
    LET s == ToSet(in.w) IN
    /\ \A k \in 0..7 : ToSet(o.index[k + 1]) = {b \in 0..6 : (Cardinality({x \in s : x < 8 * (k + 1)}) \div (2 ^ b)) % 2 = 1} \cup {7}
    /\ Len(o.sel) = Cardinality(s)
    /\ \A i \in 1..Len(o.sel) : o.sel[i] = in.w[i]
TraceSelU64 == IsEvent("selu64") /\ SelU64OK(Ev.in, Ev.out)

\* Fmt of an integer of `size` bytes: the bytes from the least significant one, each as 8 binary digits
\* least significant first, separated by spaces; of a slice: the elements separated by commas
FmtWord(ones, size) ==
    LET digit(p) == IF p \in ones THEN 49 ELSE 48
        RECURSIVE B(_)
        B(k) == IF k = size THEN <<>> ELSE (IF k > 0 THEN <<32>> ELSE <<>>) \o [b \in 1..8 |-> digit(8 * k + b - 1)] \o B(k + 1)
    IN B(0)
RECURSIVE FmtList(_, _)
FmtList(ws, size) == IF Len(ws) = 0 THEN <<>>
                     ELSE FmtWord(ToSet(ws[1]), size) \o (IF Len(ws) > 1 THEN <<44>> \o FmtList(Tail(ws), size) ELSE <<>>)
FmtOK(in, o) == o.s = (IF in.slice THEN FmtList(in.ws, in.size) ELSE FmtWord(ToSet(in.ws[1]), in.size))
TraceFmt == IsEvent("fmt") /\ FmtOK(Ev.in, Ev.out)

TraceInit == l = 1
TraceNext == TraceMasks \/ TraceRank \/ TraceRankL \/ TraceSelect \/ TraceSelectL \/ TraceScan \/ TraceOf \/ TraceOfMany
             \/ TraceToArray \/ TraceJoin \/ TraceJoinBig \/ TraceSlice \/ TraceSliceBig \/ TracePerBig \/ TraceOfBig \/ TraceGetBig \/ TraceScanBig \/ TraceSelSingle \/ TraceSelU64 \/ TraceFmt
TraceSpec == TraceInit /\ [][TraceNext]_l
============================================================================
