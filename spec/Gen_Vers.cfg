SPECIFICATION Spec
INVARIANTS Laws Emit
CHECK_DEADLOCK FALSE
