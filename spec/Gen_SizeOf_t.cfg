SPECIFICATION Spec
CONSTANTS
  D = 2
  Sample = 6
INVARIANTS Laws Emit
CHECK_DEADLOCK FALSE
