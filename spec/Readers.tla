--------------------------- MODULE Readers ---------------------------
(* C19: the query and codec functions are pure readers.  Processes (goroutines) call them     *)
(* concurrently on shared memory (bitmaps, indexes, keys, package tables).                     *)
(*   mem   shared objects -> content digest                                                    *)
(*   pc    per process: "idle" or the call it is executing                                     *)
(*   val   the result learnt so far for each call (a call's result depends only on its          *)
(*         arguments, so every execution of the same call must yield the same result)          *)
(* No action of a reader writes mem.  ScratchWrite is the named deviation (a reader that       *)
(* writes shared memory or a package table); it is disabled unless Buggy = TRUE.               *)
EXTENDS Integers, FiniteSets, TLC

CONSTANTS Procs, Calls, Cells, Results, Buggy

VARIABLES mem, mem0, pc, val
rvars == <<mem, mem0, pc, val>>

\* the result of a call is a function of its arguments and of the memory it reads
Eval(c, m) == IF \A x \in Cells : m[x] = mem0[x] THEN c ELSE "corrupted"

Init == /\ mem0 \in [Cells -> {"d0"}] /\ mem = mem0
        /\ pc = [p \in Procs |-> "idle"] /\ val = [c \in {} |-> "none"]

Start(p, c) == /\ pc[p] = "idle" /\ pc' = [pc EXCEPT ![p] = c] /\ UNCHANGED <<mem, mem0, val>>

Finish(p, r) ==
    /\ pc[p] # "idle"
    /\ LET c == pc[p] IN
       /\ r = Eval(c, mem)
       /\ val' = IF c \in DOMAIN val THEN val ELSE (c :> r) @@ val
    /\ pc' = [pc EXCEPT ![p] = "idle"] /\ UNCHANGED <<mem, mem0>>

ScratchWrite(p, x) ==
    /\ Buggy /\ pc[p] # "idle"
    /\ mem' = [mem EXCEPT ![x] = "scratch"] /\ UNCHANGED <<mem0, pc, val>>

Next == \E p \in Procs : \/ \E c \in Calls : Start(p, c)
                         \/ \E r \in Results : Finish(p, r)
                         \/ \E x \in Cells : ScratchWrite(p, x)
Spec == Init /\ [][Next]_rvars

\* ---- the property
MemUnchanged  == mem = mem0
NoWrites      == [][mem' = mem]_rvars
\* every execution of a call yields the result learnt first: results equal those of sequential execution
Deterministic == [][\A p \in Procs : (pc[p] # "idle" /\ pc'[p] = "idle" /\ pc[p] \in DOMAIN val) =>
                        Eval(pc[p], mem) = val[pc[p]]]_rvars
ResultsAreCalls == \A c \in DOMAIN val : val[c] = c
=======================================================================
