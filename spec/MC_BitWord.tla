--------------------------- MODULE MC_BitWord ---------------------------
(* C08, scaled exhaustive (BB bits per byte, widths dividing BB): the shift-and-mask forms of   *)
(* bitword/bitword.go equal the definitions Strs!FromStrD / WordAt / ToStrD / FirstDiffD for     *)
(* EVERY string of up to MaxLen bytes, every width, index and window; ToStr(FromStr(s)) = s.     *)
EXTENDS Strs, TLC

CONSTANTS MaxLen, Widths, FD      \* FD: explore FirstDiff windows (second string, from, end)
VARIABLES s, s2, n, from, end
vars == <<s, s2, n, from, end>>

Bytes == 0..(2 ^ BB - 1)
Strings(k) == UNION {[1..j -> Bytes] : j \in 0..k}
Init == /\ s \in Strings(MaxLen) /\ s2 = <<>> /\ n \in Widths /\ from = 0 /\ end = -1
\* one step picks the second string and the window (parallel enumeration)
Next == /\ FD /\ end = -1 /\ from = 0 /\ s2 = <<>> /\ UNCHANGED <<s, n>>
        /\ s2' \in Strings(MaxLen) /\ from' \in 0..(MaxLen * BB + 1) /\ end' \in 0..(MaxLen * BB + 2)
Spec == Init /\ [][Next]_vars

m == BB \div n                 \* words per byte (byteCap)
Mask == 2 ^ n - 1
\* FromStr: words[i*m + j] = (b >> (BB - n*j - n)) & mask
FromStrAlg == [k \in 1..(Len(s) * m) |->
                 LET i == (k - 1) \div m  j == (k - 1) % m
                 IN (s[i + 1] \div (2 ^ (BB - n * j - n))) % (2 ^ n)]
\* Get: i = n*ith; end = (i + n - 1) & (BB-1); (s[i / BB] >> (BB - 1 - end)) & mask
GetAlg(str, ith) == LET i == n * ith  e == (i + n - 1) % BB
                    IN (str[i \div BB + 1] \div (2 ^ (BB - 1 - e))) % (2 ^ n)
\* ToStr: for each output byte, shift in m words (zero when past the end)
ToStrAlg(ws) ==
    LET sz == (Len(ws) + m - 1) \div m
        RECURSIVE B(_, _, _)
        B(i, j, b) == IF j = m THEN b
                      ELSE B(i, j + 1, ((b * (2 ^ n)) % (2 ^ BB)) + (IF i * m + j < Len(ws) THEN ws[i * m + j + 1] ELSE 0))
    IN [i \in 1..sz |-> B(i - 1, 0, 0)]
\* FirstDiff
FirstDiffAlg(a, b, f, e0) ==
    LET la == Len(a) * m  lb == Len(b) * m
        e1 == IF e0 = -1 THEN la ELSE e0
        e2 == IF e1 > la THEN la ELSE e1
        e3 == IF e2 > lb THEN lb ELSE e2
        RECURSIVE Scan(_)
        Scan(i) == IF i >= e3 THEN e3 ELSE IF GetAlg(a, i) # GetAlg(b, i) THEN i ELSE Scan(i + 1)
    IN Scan(f)

SplitOK == /\ FromStrAlg = FromStrD(s, n)
           /\ \A i \in 0..(NWords(s, n) - 1) : GetAlg(s, i) = WordAt(s, i, n)
JoinOK  == /\ ToStrAlg(FromStrD(s, n)) = s /\ ToStrD(FromStrD(s, n), n) = s
           /\ \A k \in 0..NWords(s, n) : ToStrAlg(SubSeq(FromStrD(s, n), 1, k)) = ToStrD(SubSeq(FromStrD(s, n), 1, k), n)
FirstDiffOK == /\ FirstDiffAlg(s, s2, from, end) = FirstDiffD(s, s2, n, from, end)
               /\ FirstDiffAlg(s2, s, from, end) = FirstDiffD(s2, s, n, from, end)
===========================================================================
