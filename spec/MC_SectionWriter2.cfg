SPECIFICATION Spec
CONSTANTS
  Inf = 1000
  IBases = {0, 3}
  ISizes = {0, 2, 4}
  OBases = {0, 1, 3}
  OSizes = {0, 2, 5}
  MaxLen = 3
  MaxDepth = 3
INVARIANTS BothConfined CountIsAccepted2 ContentIsPrefix2 ErrorExactly2
PROPERTIES OuterWriteMovesOuterCursor OuterNeverMovesInnerCursor InnerNeverMovesOuterCursor
CHECK_DEADLOCK FALSE
