--------------------------- MODULE Bmtree ---------------------------
(* Definition layer (D) of package bmtree: a binary tree of height h encoded in a bitmap.    *)
(* A node is its search path: a bit sequence of length l <= h; as numbers, (l, v) with v the  *)
(* value of the l bits.  A level mask T (bitmapSize) has bit l set iff the nodes at depth l   *)
(* are stored; its top bit is the height.  The path word of a node of a height-h tree is      *)
(* hi = v * 2^(h-l) (search bits left-aligned in h bits), lo = (2^l - 1) * 2^(h-l) (mask).    *)
EXTENDS Integers, Sequences, FiniteSets, FiniteSetsExt

P2(n) == 2 ^ n
BitOf(t, k) == (t \div P2(k)) % 2
RECURSIVE HeightOf(_)
HeightOf(t) == IF t <= 1 THEN 0 ELSE 1 + HeightOf(t \div 2)
Levels(t) == {k \in 0..HeightOf(t) : BitOf(t, k) = 1}
RECURSIVE PopCount(_)
PopCount(x) == IF x = 0 THEN 0 ELSE (x % 2) + PopCount(x \div 2)

\* ---- path words (halves < 2^31, i.e. h <= 30)
PathHL(h, l, v) == <<v * P2(h - l), (P2(l) - 1) * P2(h - l)>>
\* is <<hi, lo>> the word of some node of a height-h tree?  which one?
WellFormedHL(h, p) == \E l \in 0..h : p[2] = (P2(l) - 1) * P2(h - l) /\ p[1] % P2(h - l) = 0 /\ p[1] >= 0 /\ p[1] < P2(h)
LenOfHL(h, p) == CHOOSE l \in 0..h : p[2] = (P2(l) - 1) * P2(h - l)
ValOfHL(h, p) == p[1] \div P2(h - LenOfHL(h, p))
HLLess(p, q) == p[1] < q[1] \/ (p[1] = q[1] /\ p[2] < q[2])
\* 64-bit words as four 16-bit limbs, most significant first (for arbitrary from/to)
Limbs(p) == <<p[1] \div 65536, p[1] % 65536, p[2] \div 65536, p[2] % 65536>>
LimbLess(a, b) == \E i \in 1..4 : a[i] < b[i] /\ \A j \in 1..(i - 1) : a[j] = b[j]
LimbLeq(a, b) == a = b \/ LimbLess(a, b)

\* ---- pre-order index among the stored nodes (C03)
\* closed level sum: nodes of each stored level that precede (l, v) in pre-order
Idx2(t, l, v) ==
    LET h == HeightOf(t)
        term(lv) == IF BitOf(t, lv) = 0 THEN 0
                    ELSE IF lv < l THEN (v \div P2(l - lv)) + 1      \* its ancestor at that level and everything left of it
                    ELSE IF lv = l THEN v                            \* same level, to the left
                    ELSE v * P2(lv - l)                              \* deeper levels under the nodes left of it
        RECURSIVE Sum(_)
        Sum(lv) == IF lv > h THEN 0 ELSE term(lv) + Sum(lv + 1)
    IN Sum(0)
HasLevel(t, l) == BitOf(t, l)

\* ---- IndexToPath on full trees (C05): pre-order descent
\* node with pre-order index x in the full tree of remaining height r, given the path so far
RECURSIVE Descend(_, _, _, _)
Descend(r, x, l, v) ==
    IF x = 0 THEN <<l, v>>
    ELSE IF x <= P2(r) - 1 THEN Descend(r - 1, x - 1, l + 1, 2 * v)          \* left subtree has 2^r - 1 nodes
    ELSE Descend(r - 1, x - P2(r), l + 1, 2 * v + 1)
PathOfIndex(h, x) == Descend(h, x, 0, 0)

\* ---- pre-order on bit sequences (C10)
IsPrefix(p, q) == Len(p) <= Len(q) /\ \A i \in 1..Len(p) : p[i] = q[i]
PreLess(p, q) ==
    \/ (IsPrefix(p, q) /\ Len(p) < Len(q))
    \/ \E i \in 1..(IF Len(p) < Len(q) THEN Len(p) ELSE Len(q)) :
          /\ p[i] = 0 /\ q[i] = 1 /\ \A j \in 1..(i - 1) : p[j] = q[j]
\* the 64-bit path word as the set of its bit positions: no overflow up to h = 32
PathOnes(h, bits) == {32 + h - i : i \in {j \in 1..Len(bits) : bits[j] = 1}} \cup {h - i : i \in 1..Len(bits)}
\* unsigned numeric order on words given as sets of bit positions
OnesLess(A, B) == LET D == (A \ B) \cup (B \ A) IN D # {} /\ Max(D) \in B
=====================================================================
