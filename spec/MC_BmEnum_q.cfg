SPECIFICATION Spec
CONSTANTS
  MaxH = 3
INVARIANTS AlgIsDef Ascending WordsFollowPreOrder EncodeDecode
CHECK_DEADLOCK FALSE
