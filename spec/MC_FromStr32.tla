--------------------------- MODULE MC_FromStr32 ---------------------------
(* C11, scaled exhaustive: FromStr32 of bitmap/fromstr32.go (clamp the usable length, gather up *)
(* to five bytes big-endian into a register, shift right by 5*BB - span, mask to the width)     *)
(* equals the definition: k = clamp(bits(s) - from, 0, w) and a w-bit value whose top k bits    *)
(* are bits [from, from+k) of s.  Scaled: BB bits per byte, widths 0..4*BB.                      *)
EXTENDS Strings, TLC

CONSTANT MaxLen
VARIABLES s, from, w
vars == <<s, from, w>>

Bytes == 0..(2 ^ BB - 1)
Init == /\ s \in UNION {[1..k -> Bytes] : k \in 0..MaxLen}
        /\ from \in 0..(BB * MaxLen + BB + 1) /\ w \in 0..(4 * BB)
Next == UNCHANGED vars
Spec == Init /\ [][Next]_vars

Clamp(x, lo, hi) == IF x < lo THEN lo ELSE IF x > hi THEN hi ELSE x

\* the code
Alg ==
    LET to   == from + w
        size == w
        span == to - (from \div BB) * BB                   \* tobit - (frombit & ^7)
        blen0 == BB * Len(s) - from
        blen == IF blen0 > size THEN size ELSE blen0
    IN IF blen <= 0 THEN <<0, 0>>
       ELSE LET toByte == (to + BB - 1) \div BB
                l == IF Len(s) > toByte THEN toByte ELSE Len(s)
                i == from \div BB
                byteAt(j) == IF i + j < l THEN s[i + j + 1] * (2 ^ (BB * (4 - j))) ELSE 0
                b == byteAt(0) + byteAt(1) + byteAt(2) + byteAt(3) + byteAt(4)
            IN <<blen, (b \div (2 ^ (5 * BB - span))) % (2 ^ size)>>

\* the definition
K0 == Clamp(NBits(s) - from, 0, w)
RECURSIVE ValOf(_)
ValOf(i) == IF i > K0 THEN 0 ELSE SBit(s, from + i) * (2 ^ (w - i)) + ValOf(i + 1)
Def == <<K0, ValOf(1)>>

AlgIsDef == Alg = Def
HighBitsZero == Alg[2] < 2 ^ w
=============================================================================
