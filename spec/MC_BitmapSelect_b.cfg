SPECIFICATION Spec
CONSTANTS
  W = 8
  K = 4
  B = 2
  MaxWords = 2
INVARIANTS SelectOK SelectR64OK InverseLaw IndexShape DenseFormOK
CHECK_DEADLOCK FALSE
