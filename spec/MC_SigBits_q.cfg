SPECIFICATION Spec
CONSTANTS
  BB = 2
  CH = 2
  MaxLen = 2
  MaxKeys = 4
  Alpha = {0, 1, 2}
  MaxM = 6
INVARIANTS FirstDiffOK CountOK ShardIsOK LCPFormsAgree
CHECK_DEADLOCK FALSE
