--------------------------- MODULE MC_SigBits ---------------------------
(* C16 and C17, scaled exhaustive (BB bits per byte, CH bytes per chunk, small alphabet).       *)
(* sFirstDiffBit of sigbits/firstdiff.go (compare zero-padded CH-byte chunks, leading zeros of   *)
(* the xor, clip to BB*min(len)) equals FirstDiffBitD; countPrefixes (histogram of the first-   *)
(* difference bits above their minimum, running sum starting at 1) equals CountPrefixesD (the    *)
(* number of distinct (m0+i)-bit prefixes, a shorter key counting as itself); the recursive     *)
(* dfs of ShardByPrefix satisfies the relation Strs!ShardOK.                                     *)
EXTENDS Strs, SequencesExt, TLC

CONSTANTS MaxLen, MaxKeys, CH, Alpha, MaxM
VARIABLES keys, q
vars == <<keys, q>>

AllKeys == UNION {[1..j -> Alpha] : j \in 0..MaxLen}
\* strictly ascending key lists = subsets sorted by LexCmp
SortedKeys(S) == SetToSortSeq(S, LAMBDA x, y : LexCmp(x, y) = -1)
Init == /\ \E k \in 1..MaxKeys : \E S \in kSubset(k, AllKeys) : keys = SortedKeys(S)
        /\ q = <<0, 0, 0>>
\* one step picks a CountPrefixes query <<s, e, m>> or a ShardByPrefix maxSize <<-1, maxSize, 0>>
Next == /\ q = <<0, 0, 0>> /\ UNCHANGED keys
        /\ \/ \E s \in 0..(Len(keys) - 2), e \in 2..Len(keys), mm \in 1..MaxM : e - s >= 2 /\ q' = <<s, e, mm>>
           \/ \E ms \in 1..(MaxKeys + 1) : q' = <<-1, ms, 0>>
Spec == Init /\ [][Next]_vars

\* ---- sFirstDiffBit
ChunkBits == CH * BB
\* the CH bytes of s from byte offset i (0-based), zero padded, as a bit sequence
Chunk(s, i) == [j \in 1..ChunkBits |-> IF i * BB + j <= NBits(s) THEN SBit(s, i * BB + j) ELSE 0]
LeadingEq(x, y) == LET D == {j \in 1..ChunkBits : x[j] # y[j]} IN IF D = {} THEN ChunkBits ELSE Min(D) - 1
SFirstDiffAlg(a, b) ==
    LET minl == BB * SMin(Len(a), Len(b))
        RECURSIVE L(_)
        L(i) == IF ~(i < Len(a) /\ i < Len(b)) THEN minl
                ELSE LET first == LeadingEq(Chunk(a, i), Chunk(b, i))
                     IN IF first < ChunkBits
                        THEN (IF i * BB + first < minl THEN i * BB + first ELSE minl)
                        ELSE L(i + CH)
    IN L(0)
FirstDiffOK == \A i \in 1..(Len(keys) - 1) :
    /\ SFirstDiffAlg(keys[i], keys[i + 1]) = FirstDiffBitD(keys[i], keys[i + 1])
    /\ SFirstDiffAlg(keys[i + 1], keys[i]) = FirstDiffBitD(keys[i], keys[i + 1])

\* ---- countPrefixes
FD == FirstDiffBitsD(keys)
CountPrefixesAlg(s, e, maxitem) ==
    LET ds == SubSeq(FD, s + 1, e - 1)                      \* sb.sigbits[keyStart : keyEnd-1]
        mn == Min({ds[i] : i \in DOMAIN ds})
        counts == [d \in 0..(maxitem - 2) |-> Cardinality({i \in DOMAIN ds : ds[i] - mn = d})]
        RECURSIVE Rst(_)
        Rst(i) == IF i = 0 THEN 1 ELSE Rst(i - 1) + counts[i - 1]
    IN <<mn, [i \in 1..maxitem |-> Rst(i - 1)]>>
CountOK == q[1] >= 0 /\ q[3] >= 1 =>
    CountPrefixesAlg(q[1], q[2], q[3]) = CountPrefixesD(KeyBitSeqs(keys), q[1], q[2], q[3])

\* ---- ShardByPrefix: the recursive dfs, returning <<prefix lengths, boundaries>>
PL(i) == FD[i] \div BB                                       \* firstDiffs[i] >> 3 (1-based i: between keys i and i+1)
RECURSIVE Dfs(_, _, _)
Dfs(s, e, maxSize) ==          \* keys[s..e) 0-based, exclusive e; returns <<L, B>> (B without the leading 0)
    IF e - s <= maxSize
    THEN LET mn == Min({Len(keys[s + 1])} \cup {PL(i) : i \in (s + 1)..(e - 1)})
         IN << <<mn>>, <<e>> >>
    ELSE LET cand == {PL(i) : i \in (s + 1)..(e - 1)}
             longest == Min({Len(keys[s + 1])} \cup cand)
             endsAt == SetToSortSeq({i : i \in {j \in (s + 1)..(e - 1) : PL(j) = longest}} \cup {e}, <)
             RECURSIVE Walk(_, _, _)
             Walk(k, st, acc) == IF k > Len(endsAt) THEN acc
                                 ELSE LET r == Dfs(st, endsAt[k], maxSize)
                                      IN Walk(k + 1, endsAt[k], << acc[1] \o r[1], acc[2] \o r[2] >>)
         IN Walk(1, s, << <<>>, <<>> >>)
ShardAlg(maxSize) == LET r == Dfs(0, Len(keys), maxSize) IN << r[1], <<0>> \o r[2] >>
LCPFormsAgree == \A a \in 1..Len(keys), b \in 1..Len(keys) : a <= b => LCPBytes(keys, a, b) = LCPBytesDef(keys, a, b)
ShardIsOK == q[1] = -1 => LET r == ShardAlg(q[2]) IN ShardOK(keys, q[2], r[1], r[2])
===========================================================================
