--------------------------- MODULE Trace_PbFrame ---------------------------
(* Trace validation of pbcmpl (C06 round trips, C07 faults): the stream is part of the         *)
(* specification state; every Marshal must append exactly the bytes the format prescribes      *)
(* (given what the scripted writer accepted), every Unmarshal/ReadHeader must report what the   *)
(* format and io.ReadFull semantics prescribe for the bytes at the read position (given what   *)
(* the scripted reader delivered before ending or failing).                                     *)
EXTENDS PbFrame, TraceIO

VARIABLE l
tvars == <<wire, rpos, good, l>>
Ev == Trace[l]
IsEvent(k) == l <= Len(Trace) /\ Ev.k = k /\ Ev.abn = "" /\ l' = l + 1

DefaultVer == <<49, 46, 48, 46, 48>>      \* "1.0.0"

TraceStream == IsEvent("Stream") /\ Stream(Ev.bytes)
TraceRewind == IsEvent("Rewind") /\ Rewind

TraceMarshal ==
    /\ IsEvent("Marshal")
    /\ LET ver == IF Ev.hasver THEN Ev.ver ELSE DefaultVer IN
       /\ ValidVer(ver)
       /\ MarshalAnyOK(ver, Ev.enc, Ev.wcalls, [n |-> Ev.n, err |-> Ev.err, written |-> Ev.written])
       /\ Ev.size = H + Len(Ev.enc) /\ Ev.hsize = H               \* Size(msg), HeaderSize(msg)
       /\ MarshalAny(ver, Ev.enc, Ev.kind, Ev.wcalls)

Avail == IF Ev.avail < 0 THEN Inf ELSE Ev.avail

TraceUnmarshal ==
    /\ IsEvent("Unmarshal")
    /\ Ev.used = Ev.n                                                \* count = bytes consumed from the reader
    /\ Unmarshal(Avail, Ev.fault, Ev.kind, [n |-> Ev.n, err |-> Ev.err, ver |-> Ev.ver, body |-> Ev.body])

TraceReadHeader ==
    /\ IsEvent("ReadHeader")
    /\ Ev.used = Ev.n
    /\ ReadHeader(Avail, Ev.fault, [n |-> Ev.n, err |-> Ev.err, ver |-> Ev.ver, hsize |-> Ev.hsize, bsize |-> Ev.bsize])

TraceInit == wire = <<>> /\ rpos = 0 /\ good = {} /\ l = 1
TraceNext == TraceStream \/ TraceRewind \/ TraceMarshal \/ TraceUnmarshal \/ TraceReadHeader
TraceSpec == TraceInit /\ [][TraceNext]_tvars
=============================================================================
