--------------------------- MODULE Trace_PbFrame ---------------------------
(* Trace validation of pbcmpl (C06 round trips, C07 faults): the stream is part of the         *)
(* specification state; every Marshal must append exactly the bytes the format prescribes      *)
(* (given what the scripted writer accepted), every Unmarshal/ReadHeader must report what the   *)
(* format and io.ReadFull semantics prescribe for the bytes at the read position (given what   *)
(* the scripted reader delivered before ending or failing).                                     *)
EXTENDS PbFrame, TraceIO

VARIABLE l
tvars == <<wire, rpos, good, l>>
Ev == Trace[l]
IsEvent(k) == l <= Len(Trace) /\ Ev.k = k /\ Ev.abn = "" /\ l' = l + 1

DefaultVer == <<49, 46, 48, 46, 48>>      \* "1.0.0"

TraceStream == IsEvent("Stream") /\ Stream(Ev.bytes)
TraceRewind == IsEvent("Rewind") /\ Rewind

TraceMarshal ==
    /\ IsEvent("Marshal")
    /\ LET ver == IF Ev.hasver THEN Ev.ver ELSE DefaultVer
           c  == Ev.wcalls
           k1 == c[1].k  e1 == c[1].e
           k2 == IF Len(c) >= 2 THEN c[2].k ELSE 0
           e2 == IF Len(c) >= 2 THEN c[2].e ELSE FALSE
           r  == MarshalResult(ver, Ev.enc, k1, e1, k2, e2)
       IN /\ ValidVer(ver)
          /\ Len(c) = (IF e1 THEN 1 ELSE 2)                         \* header write, then body write
          /\ c[1].offered = H /\ k1 <= H /\ (~e1 => k1 = H)
          /\ (~e1 => c[2].offered = Len(Ev.enc) /\ k2 <= Len(Ev.enc) /\ (~e2 => k2 = Len(Ev.enc)))
          /\ Ev.n = r.n /\ Ev.err = r.err
          /\ Ev.written = r.out                                      \* exactly the first n bytes of the frame
          /\ Ev.size = H + Len(Ev.enc) /\ Ev.hsize = H               \* Size(msg), HeaderSize(msg)
          /\ Marshal(ver, Ev.enc, Ev.kind, k1, e1, k2, e2)

Avail == IF Ev.avail < 0 THEN Inf ELSE Ev.avail

TraceUnmarshal ==
    /\ IsEvent("Unmarshal")
    /\ Ev.used = Ev.n                                                \* count = bytes consumed from the reader
    /\ Unmarshal(Avail, Ev.fault, Ev.kind, [n |-> Ev.n, err |-> Ev.err, ver |-> Ev.ver, body |-> Ev.body])

TraceReadHeader ==
    /\ IsEvent("ReadHeader")
    /\ Ev.used = Ev.n
    /\ ReadHeader(Avail, Ev.fault, [n |-> Ev.n, err |-> Ev.err, ver |-> Ev.ver, hsize |-> Ev.hsize, bsize |-> Ev.bsize])

TraceInit == wire = <<>> /\ rpos = 0 /\ good = {} /\ l = 1
TraceNext == TraceStream \/ TraceRewind \/ TraceMarshal \/ TraceUnmarshal \/ TraceReadHeader
TraceSpec == TraceInit /\ [][TraceNext]_tvars
=============================================================================
