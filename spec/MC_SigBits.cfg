SPECIFICATION Spec
CONSTANTS
  BB = 2
  CH = 2
  MaxLen = 3
  MaxKeys = 3
  Alpha = {0, 1, 2}
  MaxM = 6
INVARIANTS FirstDiffOK CountOK ShardIsOK LCPFormsAgree
CHECK_DEADLOCK FALSE
