--------------------------- MODULE MC_BitmapBuild ---------------------------
(* C12 (pure part) and C14, scaled exhaustive: Of / ToArray / Get* / OfMany and Join / Getw /   *)
(* Slice as the code computes them equal the definitions, and the round-trip laws hold.          *)
EXTENDS Bitmap, SequencesExt, TLC

CONSTANTS MaxPos, Widths
VARIABLES P, n, hasn, probe
vars == <<P, n, hasn, probe>>

Init == /\ P \in SUBSET (0..MaxPos) /\ n \in -1..(MaxPos + 2) /\ hasn \in BOOLEAN
        /\ probe \in -2..(MaxPos + W + 1)
Next == UNCHANGED vars
Spec == Init /\ [][Next]_vars

L == SetToSortSeq(P, <)

\* Of as the code computes it: n = opts[0] or 0; n = max(n, last+1); n = max(n, 0); words = (n + W-1) >> log W
OfAlg ==
    LET n0 == IF hasn THEN n ELSE 0
        n1 == IF Len(L) > 0 /\ n0 < L[Len(L)] + 1 THEN L[Len(L)] + 1 ELSE n0
        n2 == IF n1 < 0 THEN 0 ELSE n1
    IN [nw |-> (n2 + W - 1) \div W, ones |-> {L[j] : j \in DOMAIN L}]
D == OfD(L, IF hasn THEN n ELSE 0)
OfOK == OfAlg = D /\ WellFormed(D.nw, D.ones)
\* ToArray(Of(l)) = l ; Of(ToArray(b)) = b up to trailing zero words
ToArrayD(S) == SetToSortSeq(S, <)
RoundTrips ==
    /\ ToArrayD(D.ones) = L
    /\ LET back == OfD(ToArrayD(D.ones), 0) IN back.ones = D.ones /\ back.nw <= D.nw
\* Safe variants are 0 outside, agree with Get/Get1 inside; Get is the bit in place
GetOK == /\ (Inside(D.nw, probe) => (GetD(D.ones, probe) # {}) = (probe \in P))
         /\ (Inside(D.nw, probe) /\ probe \in P => GetD(D.ones, probe) = {probe % W} /\ Get1D(D.ones, probe) = {0})
         /\ (~Inside(D.nw, probe) => probe \notin D.ones)
\* OfMany of a split of L into two segments at any size equals Of of the whole (shifted concatenation)
SplitOK == \A size \in 0..(MaxPos + 1) :
    LET a == SelectSeq(L, LAMBDA x : x < size)
        b == [j \in 1..(Len(L) - Len(a)) |-> L[Len(a) + j] - size]
    IN OfManyD(<<a, b>>, <<size, IF hasn /\ n > size THEN n - size ELSE 0>>) =
       OfD(L, size + (IF hasn /\ n > size THEN n - size ELSE 0))
===============================================================================
