SPECIFICATION TraceSpec
CONSTANTS
  W = 64
POSTCONDITION TraceAccepted
CHECK_DEADLOCK FALSE
