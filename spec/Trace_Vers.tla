--------------------------- MODULE Trace_Vers ---------------------------
(* Trace validation of vers.Check and vers.IsCompatible against Vers!CheckD.  The driver renders  *)
(* the structured version and spec as strings (several spellings of "=" and "!="), calls both      *)
(* functions and logs their answers; for a malformed version string IsCompatible answers false.    *)
EXTENDS Vers, TraceIO
VARIABLE l
Ev == Trace[l]
IsEvent(k) == l <= Len(Trace) /\ Ev.k = k /\ Ev.abn = "" /\ l' = l + 1
TraceVers ==
    /\ IsEvent("vers")
    /\ \A i \in DOMAIN Ev.in.spec : \A j \in DOMAIN Ev.in.spec[i] : Ev.in.spec[i][j][1] \in Ops
    /\ IF Ev.in.valid
       THEN /\ Ev.out.check = CheckD(Ev.in.v, Ev.in.spec) /\ Ev.out.compat = Ev.out.check /\ ~Ev.out.checkpanics
       \* (Check's contract for a malformed version is a `must` assertion, compiled in only with the debug build tag:
       \* in the release build its answer is unspecified)
       ELSE Ev.out.compat = FALSE
TraceInit == l = 1
TraceNext == TraceVers
TraceSpec == TraceInit /\ [][TraceNext]_l
=========================================================================
