--------------------------- MODULE Gen_TailBitmap ---------------------------
(* GEN engine for C15: TLC (simulation mode) walks the TailBitmap machine at W = 64 with          *)
(* macro-steps - fill a whole word (optionally leaving one hole), set single bits around the       *)
(* offset, the end of the stored words and far beyond it, close a hole, Compact - so that words    *)
(* really become full in arbitrary orders, Compact walks runs of several full words and the        *)
(* bitmap grows by several words at once.  Every behaviour is written as a driver case; the        *)
(* driver expands Fill into Set calls and every single call is validated by Trace_TailBitmap.      *)
EXTENDS TailBitmap, Sequences, TLC, Json, IOUtils, CSV

CONSTANTS Depth, Span
VARIABLES hist, holes, done
vars == <<offset, nw, bits, reclaimed, hist, holes, done>>

St == <<offset, nw, bits, reclaimed>>
Apply(st) == offset' = st[1] /\ nw' = st[2] /\ bits' = st[3] /\ reclaimed' = st[4]
RECURSIVE FillF(_, _, _, _)
FillF(st, wbase, b, hole) == IF b = W THEN st
                             ELSE FillF(IF b = hole THEN st ELSE SetF(st, wbase + b), wbase, b + 1, hole)

Init == /\ \E o \in {0, 64, 4096} : offset = o /\ reclaimed = o /\ hist = << [k |-> "New", o |-> o] >>
        /\ nw = 0 /\ bits = {} /\ holes = {} /\ done = FALSE

Step ==
    \/ \E k \in 0..Span, hole \in {-1, 17, 63} :          \* fill word k (counted from the current offset)
          LET wbase == offset + W * k IN
          /\ Apply(FillF(St, wbase, 0, hole))
          /\ holes' = (IF hole >= 0 THEN holes \cup {wbase + hole} ELSE holes)
          /\ hist' = Append(hist, [k |-> "Fill", base |-> wbase, hole |-> hole])
    \/ \E d \in {-1, 0, 1, 63, 64, 65, 128, W * nw - 1, W * nw, W * nw + 1, W * (nw + 2) + 5, W * (nw + 4)} :
          LET idx == offset + d IN
          /\ idx >= 0 /\ Apply(SetF(St, idx)) /\ UNCHANGED holes
          /\ hist' = Append(hist, [k |-> "Set", idx |-> idx])
    \/ \E hidx \in holes :                                    \* close a hole
          /\ Apply(SetF(St, hidx)) /\ holes' = holes \ {hidx}
          /\ hist' = Append(hist, [k |-> "Set", idx |-> hidx])
    \/ /\ Apply(CompactF(St)) /\ UNCHANGED holes /\ hist' = Append(hist, [k |-> "Compact"])
    \/ \E hidx \in holes :                                    \* probe a hole and its neighbours
          /\ hidx < offset + W * nw /\ UNCHANGED <<offset, nw, bits, reclaimed, holes>>
          /\ hist' = Append(hist, [k |-> "Probe", j |-> hidx])

Emit == /\ CSVWrite("%1$s", <<ToJson(hist)>>, IOEnv.VERIF_GEN_OUT)
        /\ done' = TRUE /\ UNCHANGED <<offset, nw, bits, reclaimed, hist, holes>>
Next == ~done /\ (IF Len(hist) <= Depth THEN Step /\ done' = FALSE ELSE Emit)
Spec == Init /\ [][Next]_vars
Inv == Aligned /\ InRange
==============================================================================
