--------------------------- MODULE TailBitmapInd ---------------------------
(* C15 as an inductive invariant, for Apalache (symbolic, no reachability): IndInv holds        *)
(* initially and is preserved by every Set/Compact step from ANY state satisfying it - not only  *)
(* from the states TLC reaches - for every bitmap over positions 0..MaxIdx.                       *)
(* Same machine as TailBitmap.tla with the recursion of Compact replaced by the closed form:      *)
(* drop k leading words where k is the length of the maximal run of full words.                   *)
EXTENDS Integers, FiniteSets

CONSTANTS
    \* @type: Int;
    W,
    \* @type: Int;
    MaxIdx

VARIABLES
    \* @type: Int;
    offset,
    \* @type: Int;
    nw,
    \* @type: Set(Int);
    bits,
    \* @type: Int;
    o0,
    \* @type: Set(Int);
    ever

Pos == 0..MaxIdx
MaxWords == (MaxIdx + 1) \div W

\* @type: (Int, Set(Int)) => Bool;
Full(o, b) == \A j \in Pos : (j >= o /\ j < o + W) => j \in b
\* the number of leading full words of (o, n, b)
\* @type: (Int, Int, Set(Int), Int) => Bool;
IsRun(o, n, b, k) == /\ k >= 0 /\ k <= n
                     /\ \A i \in 0..MaxWords : i < k => Full(o + W * i, b)
                     /\ (k = n \/ ~Full(o + W * k, b))

CInitQ == W = 4 /\ MaxIdx = 31          \* quick tier
CInitT == W = 8 /\ MaxIdx = 95          \* thorough tier

Init == /\ o0 \in {0, W, 2 * W} /\ offset = o0 /\ nw = 0 /\ bits = {} /\ ever = {}

\* @type: (Int, Int, Set(Int)) => Bool;
CompactTo(o, n, b) ==
    \E k \in 0..MaxWords :
        /\ IsRun(o, n, b, k)
        /\ offset' = o + W * k /\ nw' = n - k
        /\ bits' = {x \in b : x >= o + W * k}

Set(idx) ==
    /\ ever' = ever \union {idx} /\ o0' = o0
    /\ IF idx < offset
       THEN UNCHANGED <<offset, nw, bits>>
       ELSE LET wi == (idx - offset) \div W
                n1 == IF wi >= nw THEN wi + 1 ELSE nw
                b1 == bits \union {idx}
            IN IF wi = 0 THEN CompactTo(offset, n1, b1)
               ELSE nw' = n1 /\ bits' = b1 /\ offset' = offset

Compact == CompactTo(offset, nw, bits) /\ UNCHANGED <<o0, ever>>

Next == (\E idx \in Pos : Set(idx)) \/ Compact

\* ---- the inductive invariant
TypeOK == /\ offset \in 0..(MaxIdx + 1) /\ nw \in 0..MaxWords /\ o0 \in 0..(MaxIdx + 1)
          /\ bits \in SUBSET Pos /\ ever \in SUBSET Pos
IndInv ==
    /\ TypeOK
    /\ offset % W = 0 /\ o0 % W = 0 /\ offset >= o0
    /\ offset + W * nw <= MaxIdx + 1
    /\ \A x \in Pos : x \in bits <=> (x \in ever /\ x >= offset /\ x < offset + W * nw)     \* neither forgets nor invents
    /\ \A x \in Pos : (x \in ever /\ x >= offset) => x < offset + W * nw                     \* every set bit is stored
    /\ \A j \in Pos : (j >= o0 /\ j < offset) => j \in ever                                  \* never moved past a 0
IndInit == IndInv
\* the property itself follows from IndInv
Get1(j) == IF j < offset THEN 1 ELSE IF j \in bits THEN 1 ELSE 0
Property == \A j \in Pos : j < offset + W * nw => ((Get1(j) = 1) <=> (j < o0 \/ j \in ever))
\* sanity: these must be refuted (non-vacuity of the inductive check)
BadNeverMoves == offset = o0
BadNoBits == bits = {}
=============================================================================
