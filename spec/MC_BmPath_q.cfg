SPECIFICATION Spec
CONSTANTS
  MaxH = 5
  BB = 8
INVARIANTS OrderIsPreOrder TotalOrder HalvesAgree AncestorFirst
CHECK_DEADLOCK FALSE
