------------------------- MODULE SectionWriter2ProofBad -------------------------
(* TLAPS: C18 for a SectionWriter laid over a SectionWriter, for EVERY pair of sections, every   *)
(* request and every behaviour of the innermost writer: what reaches the innermost writer lies   *)
(* inside the inner section AND inside the outer section's window of it; an operation on one     *)
(* section never moves the other section's cursor; the count the outer section returns is what   *)
(* the innermost writer accepted.  Over the length form of the steps (contents play no part).    *)
EXTENDS SectionWriter2, TLAPS

InitP2 == /\ ibase \in Int /\ ilimit \in Int /\ ibase <= ilimit /\ icur = ibase
          /\ obase \in Int /\ olimit \in Int /\ obase <= olimit /\ ocur = obase
          /\ icalls = <<>> /\ ocalls = <<>> /\ iret = [n |-> 0, err |-> "nil"] /\ oret = [n |-> 0, err |-> "nil"]
OuterStep == \/ \E n \in Nat, k \in Nat, e \in BOOLEAN : OWriteL(n, k, e)
             \/ \E n \in Nat, off \in Int, k \in Nat, e \in BOOLEAN : OWriteAtL(n, off, k, e)
             \/ \E off \in Int, w \in Int : OSeek(off, w)
             \/ OSize
InnerStep == \/ \E n \in Nat, k \in Nat, e \in BOOLEAN : I!WriteL(n, k, e) /\ OIdle
             \/ \E n \in Nat, off \in Int, k \in Nat, e \in BOOLEAN : I!WriteAtL(n, off, k, e) /\ OIdle
             \/ \E off \in Int, w \in Int : ISeek(off, w)
NextP2 == OuterStep \/ InnerStep
SpecP2 == InitP2 /\ [][NextP2]_vars2

CallT == [off : Int, p : {<<>>}, n : Nat, k : Nat, e : BOOLEAN]
Confined2L ==
    \A i \in DOMAIN icalls :
        /\ icalls[i].off >= ibase /\ icalls[i].off + icalls[i].n <= ilimit
        /\ (ocalls # <<>> => /\ icalls[i].off >= ibase + obase
                             /\ icalls[i].off + icalls[i].n < ibase + olimit)
InvP2 == /\ ibase \in Int /\ ilimit \in Int /\ icur \in Int /\ obase \in Int /\ olimit \in Int /\ ocur \in Int
         /\ ibase <= ilimit /\ obase <= olimit /\ icur >= ibase /\ ocur >= obase
         /\ (icalls = <<>> \/ \E c \in CallT : icalls = <<c>>)
         /\ (ocalls = <<>> \/ \E c \in CallT : ocalls = <<c>>)
         /\ Confined2L

ASSUME InfInt == Inf \in Int

THEOREM InitInv2 == InitP2 => InvP2
  BY InfInt DEF InitP2, InvP2, Confined2L

LEMMA OuterWriteInv ==
  ASSUME InvP2, NEW n \in Nat, NEW k \in Nat, NEW e \in BOOLEAN, OWriteL(n, k, e)
  PROVE  InvP2' /\ icur' = icur
  BY InfInt DEF InvP2, Confined2L, CallT, OWriteL, AnsweredL, O!WriteL, O!SWStepL, O!WriteOutcome, O!EnvOK, O!Min2, O!WriteErrL,
     I!WriteAtL, I!SWStepL, I!WriteAtOutcome, I!EnvOK, I!Min2, I!WriteErrL
LEMMA OuterWriteAtInv ==
  ASSUME InvP2, NEW n \in Nat, NEW off \in Int, NEW k \in Nat, NEW e \in BOOLEAN, OWriteAtL(n, off, k, e)
  PROVE  InvP2' /\ icur' = icur /\ ocur' = ocur
  BY InfInt DEF InvP2, Confined2L, CallT, OWriteAtL, AnsweredL, O!WriteAtL, O!SWStepL, O!WriteAtOutcome, O!EnvOK, O!Min2, O!WriteErrL,
     I!WriteAtL, I!SWStepL, I!WriteAtOutcome, I!EnvOK, I!Min2, I!WriteErrL

THEOREM StepInv2 == InvP2 /\ [NextP2]_vars2 => InvP2'
<1> SUFFICES ASSUME InvP2, [NextP2]_vars2 PROVE InvP2'
  OBVIOUS
<1>1. ASSUME NEW n \in Nat, NEW k \in Nat, NEW e \in BOOLEAN, OWriteL(n, k, e) PROVE InvP2'
  BY <1>1, OuterWriteInv
<1>2. ASSUME NEW n \in Nat, NEW off \in Int, NEW k \in Nat, NEW e \in BOOLEAN, OWriteAtL(n, off, k, e) PROVE InvP2'
  BY <1>2, OuterWriteAtInv
<1>3. ASSUME NEW off \in Int, NEW w \in Int, OSeek(off, w) PROVE InvP2'
  BY <1>3, InfInt DEF InvP2, Confined2L, OSeek, O!Seek
<1>4. ASSUME OSize PROVE InvP2'
  BY <1>4, InfInt DEF InvP2, Confined2L, OSize, O!Size
<1>5. ASSUME NEW n \in Nat, NEW k \in Nat, NEW e \in BOOLEAN, I!WriteL(n, k, e) /\ OIdle PROVE InvP2'
  BY <1>5, InfInt DEF InvP2, Confined2L, CallT, OIdle, I!WriteL, I!SWStepL, I!WriteOutcome, I!EnvOK, I!Min2, I!WriteErrL
<1>6. ASSUME NEW n \in Nat, NEW off \in Int, NEW k \in Nat, NEW e \in BOOLEAN, I!WriteAtL(n, off, k, e) /\ OIdle PROVE InvP2'
  BY <1>6, InfInt DEF InvP2, Confined2L, CallT, OIdle, I!WriteAtL, I!SWStepL, I!WriteAtOutcome, I!EnvOK, I!Min2, I!WriteErrL
<1>7. ASSUME NEW off \in Int, NEW w \in Int, ISeek(off, w) PROVE InvP2'
  BY <1>7, InfInt DEF InvP2, Confined2L, ISeek, OIdle, I!Seek
<1>8. ASSUME UNCHANGED vars2 PROVE InvP2'
  BY <1>8 DEF InvP2, Confined2L, vars2, ovars, ivars
<1> QED BY <1>1, <1>2, <1>3, <1>4, <1>5, <1>6, <1>7, <1>8 DEF NextP2, OuterStep, InnerStep

THEOREM Safety2 == SpecP2 => []InvP2
  BY InitInv2, StepInv2, PTL DEF SpecP2

\* the count the outer section returns is what the innermost writer accepted (0 if nothing reached it),
\* and the outer cursor moves by exactly that
THEOREM OuterCountIsInnermost ==
  ASSUME InvP2, NEW n \in Nat, NEW k \in Nat, NEW e \in BOOLEAN, OWriteL(n, k, e)
  PROVE  /\ oret'.n = (IF icalls' = <<>> THEN 0 ELSE icalls'[1].k)
         /\ ocur' = ocur + oret'.n
  BY InfInt DEF InvP2, Confined2L, CallT, OWriteL, AnsweredL, O!WriteL, O!SWStepL, O!WriteOutcome, O!EnvOK, O!Min2, O!WriteErrL,
     I!WriteAtL, I!SWStepL, I!WriteAtOutcome, I!EnvOK, I!Min2, I!WriteErrL
==============================================================================
