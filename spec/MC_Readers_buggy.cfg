SPECIFICATION Spec
CONSTANTS
  Procs = {p1, p2, p3}
  Calls = {"c1", "c2"}
  Cells = {x1, x2, x3}
  Results = {"c1", "c2", "corrupted"}
  Buggy = TRUE
INVARIANTS MemUnchanged ResultsAreCalls
PROPERTIES NoWrites Deterministic
CHECK_DEADLOCK FALSE
