--------------------------- MODULE MC_BitmapSelect ---------------------------
(* C02, scaled exhaustive: the algorithms of bitmap/select.go equal the definition             *)
(* Bitmap!SelectD for EVERY bitmap and every valid i.                                           *)
(*   Select32:     checkpoint from the K-sampled select index, clear the bits below it, skip    *)
(*                 words while popcount <= remaining, halve the word (W/2 ... 2B) and finish    *)
(*                 with the B-bit lookup table (second or first "byte"), then find the next 1.  *)
(*   Select32R64:  start word from the select index, advance with the rank index, same in-word  *)
(*                 search, same next-1 scan.                                                    *)
(* Real code: W = 64, K = 32, B = 8.                                                            *)
EXTENDS Bitmap, SequencesExt, TLC

CONSTANTS MaxWords, B
VARIABLES nw, S, i
vars == <<nw, S, i>>

Init == \E n \in 1..MaxWords :
          /\ nw = n /\ S \in (SUBSET (0..(W * n - 1))) \ {{}}
          /\ i \in 0..(Cardinality(S) - 1)
Next == UNCHANGED vars
Spec == Init /\ [][Next]_vars

Ones == SetToSortSeq(S, <)
Word(k)   == {b \in 0..(W - 1) : W * k + b \in S}
Pop(w)    == Cardinality(w)
Low(w, n) == {b \in w : b < n}
Shr(w, n) == {b - n : b \in {x \in w : x >= n}}
MinS(w)   == CHOOSE x \in w : \A y \in w : x <= y
RankBefore(k) == Cardinality({x \in S : x < W * k})

\* select8Lookup[b*8 + ith]: successive lowest set bit, B when exhausted (initSelectLookup)
RECURSIVE Lk(_, _)
Lk(byte, ith) == IF byte = {} THEN B ELSE IF ith = 0 THEN MinS(byte) ELSE Lk(byte \ {MinS(byte)}, ith - 1)
\* the in-word search: recursive halving down to the final two-"byte" decision
RECURSIVE Halve(_, _, _, _)
Halve(w, width, find, base) ==
    IF width = B
    THEN LET o1 == Pop(Low(w, B))
         IN IF o1 <= find THEN Lk(Low(Shr(w, B), B), find - o1) + base + B
            ELSE Lk(Low(w, B), find) + base
    ELSE LET o1 == Pop(Low(w, width))
         IN IF o1 <= find THEN Halve(Shr(w, width), width \div 2, find - o1, base + width)
            ELSE Halve(w, width \div 2, find, base)
InWord(w, find) == Halve(w, W \div 2, find, 0)

\* the next 1 after position a (a is in word wi, whose current contents are w)
RECURSIVE NextWord(_)
NextWord(k) == IF k >= nw THEN W * nw ELSE IF Word(k) # {} THEN W * k + MinS(Word(k)) ELSE NextWord(k + 1)
NextOneAfter(w, wi, a) ==
    LET rest == {b \in w : b > a % W}
    IN IF rest # {} THEN W * wi + MinS(rest) ELSE NextWord(a \div W + 1)

\* Select32
SIdx == IdxSelectD(Ones)
RECURSIVE SkipWords(_, _, _)
SkipWords(w, wi, find) ==
    IF Pop(w) <= find THEN SkipWords(Word(wi + 1), wi + 1, find - Pop(w)) ELSE <<w, wi, find>>
Select32Alg ==
    LET base == SIdx[i \div K + 1]
        w0   == {b \in Word(base \div W) : b >= base % W}       \* w & ^Mask[base&63]
        st   == SkipWords(w0, base \div W, i % K)
        a    == InWord(st[1], st[3]) + W * st[2]
    IN <<a, NextOneAfter(st[1], st[2], a)>>

\* Select32R64
RIdx == [k \in 1..(nw + 1) |-> RankBefore(k - 1)]
RECURSIVE SkipByRank(_)
SkipByRank(wi) == IF RIdx[wi + 2] <= i THEN SkipByRank(wi + 1) ELSE wi
Select32R64Alg ==
    LET wi == SkipByRank(SIdx[i \div K + 1] \div W)
        w  == Word(wi)
        a  == InWord(w, i - RIdx[wi + 1]) + W * wi
    IN <<a, NextOneAfter(w, wi, a)>>

\* ---- A = D, and the inverse laws
Want == SelectD(Ones, nw, i)
SelectOK    == Select32Alg = Want
SelectR64OK == Select32R64Alg = Want
InverseLaw  == Rank(S, Want[1]) = i /\ Want[1] \in S
\* the closed form used for long dense bitmaps (given by their 0-bits) is the definition
Zeros == SetToSortSeq((0..(W * nw - 1)) \ S, <)
DenseFormOK == /\ SelectL(TRUE, Zeros, i) = Want[1] /\ SelectL(FALSE, Ones, i) = Want[1]
               /\ OnesBeforeL(TRUE, Zeros, Want[1]) = i /\ BitAtL(TRUE, Zeros, Want[1]) = 1
               /\ NOnesL(TRUE, Zeros, nw) = Cardinality(S)
IndexShape  == Len(SIdx) = CeilDiv(Cardinality(S), K) /\ RIdx = IdxRank64D(S, nw, TRUE)
================================================================================
