SPECIFICATION Spec
CONSTANTS
  W = 4
  K = 2
  MaxWords = 3
INVARIANTS NextOK PrevOK
CHECK_DEADLOCK FALSE
