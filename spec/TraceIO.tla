--------------------------- MODULE TraceIO ---------------------------
(* Shared plumbing of the trace specifications: the recorded execution is an ndjson  *)
(* file (one event per line) named by the environment variable VERIF_TRACE.          *)
EXTENDS Json, IOUtils, TLC, Sequences, Integers

Trace == ndJsonDeserialize(IOEnv.VERIF_TRACE)

\* Accepted iff every line was consumed: one state per consumed line plus the initial state.
TraceAccepted == TLCGet("stats").diameter - 1 = Len(Trace)

ToSet(s) == {s[i] : i \in DOMAIN s}
=======================================================================
