--------------------------- MODULE SectionWriter2 ---------------------------
(* A SectionWriter laid over another SectionWriter (iohelper.NewSectionWriter(inner, off, n)   *)
(* where inner is itself a *SectionWriter over some io.WriterAt): a SectionWriter is an         *)
(* io.WriterAt, so C18 must hold for the composition as well.  The two machines are two         *)
(* instances of SectionWriter; the INNER section is the OUTER section's environment: the call   *)
(* the outer section makes on "its underlying writer" is a WriteAt on the inner section, and    *)
(* what the inner section returns (count, error) is what the outer section sees.                *)
(*                                                                                              *)
(* Coordinates: the outer section's absolute offsets are offsets RELATIVE to the inner           *)
(* section's start (that is what inner.WriteAt takes); the inner section's absolute offsets     *)
(* are positions of the innermost writer.                                                       *)
EXTENDS Integers, Sequences

CONSTANT Inf

VARIABLES obase, olimit, ocur, ocalls, oret,
          ibase, ilimit, icur, icalls, iret
ovars == <<obase, olimit, ocur, ocalls, oret>>
ivars == <<ibase, ilimit, icur, icalls, iret>>
vars2 == <<ovars, ivars>>

O == INSTANCE SectionWriter WITH base <- obase, limit <- olimit, cur <- ocur, calls <- ocalls, ret <- oret
I == INSTANCE SectionWriter WITH base <- ibase, limit <- ilimit, cur <- icur, calls <- icalls, ret <- iret

New2(ib, inn, ob, on) == I!New(ib, inn) /\ O!New(ob, on)

\* The inner section answers the call the outer section made in this step (ocalls'), if it made one.
\* k, e: what the innermost writer does with the bytes that reach it.
Answered(k1, e1, k, e) ==
    IF ocalls' = <<>>
    THEN /\ k1 = 0 /\ e1 = FALSE
         /\ icalls' = <<>> /\ UNCHANGED <<ibase, ilimit, icur, iret>>
    ELSE /\ I!WriteAt(ocalls'[1].p, ocalls'[1].off, k, e)
         /\ k1 = iret'.n /\ e1 = (iret'.err # "nil")

OWrite(p, k, e) ==
    \E k1 \in 0..Len(p), e1 \in BOOLEAN : O!Write(p, k1, e1) /\ Answered(k1, e1, k, e)
OWriteAt(p, off, k, e) ==
    \E k1 \in 0..Len(p), e1 \in BOOLEAN : O!WriteAt(p, off, k1, e1) /\ Answered(k1, e1, k, e)
OSeek(off, w) == O!Seek(off, w) /\ icalls' = <<>> /\ UNCHANGED <<ibase, ilimit, icur, iret>>
OSize         == O!Size /\ icalls' = <<>> /\ UNCHANGED <<ibase, ilimit, icur, iret>>

\* The same composed steps for a buffer given by its length only (see SectionWriter!WriteL)
AnsweredL(k1, e1, k, e) ==
    IF ocalls' = <<>>
    THEN /\ k1 = 0 /\ e1 = FALSE
         /\ icalls' = <<>> /\ UNCHANGED <<ibase, ilimit, icur, iret>>
    ELSE /\ I!WriteAtL(ocalls'[1].n, ocalls'[1].off, k, e)
         /\ k1 = iret'.n /\ e1 = (iret'.err # "nil")
OWriteL(n, k, e) ==
    \E k1 \in 0..n, e1 \in BOOLEAN : O!WriteL(n, k1, e1) /\ AnsweredL(k1, e1, k, e)
OWriteAtL(n, off, k, e) ==
    \E k1 \in 0..n, e1 \in BOOLEAN : O!WriteAtL(n, off, k1, e1) /\ AnsweredL(k1, e1, k, e)

\* the inner section used directly (the outer one does not notice)
OIdle == ocalls' = <<>> /\ UNCHANGED <<obase, olimit, ocur, oret>>
IWrite(p, k, e)        == I!Write(p, k, e) /\ OIdle
IWriteAt(p, off, k, e) == I!WriteAt(p, off, k, e) /\ OIdle
ISeek(off, w)          == I!Seek(off, w) /\ OIdle

\* The error the outer section reports: when "its underlying writer failed" that is the inner section's error
\* (the innermost writer's, or io.ErrShortWrite when the inner section cut the request short).
OErr == IF oret.err = "inj" THEN iret.err ELSE oret.err

\* ---- C18 for the composition: whatever reaches the innermost writer lies inside BOTH sections
Confined2 ==
    \A i \in DOMAIN icalls :
        LET c == icalls[i] IN
        /\ c.off >= ibase /\ c.off + Len(c.p) <= ilimit
        /\ (ocalls # <<>> => /\ c.off >= ibase + obase
                             /\ c.off + Len(c.p) <= ibase + olimit)
=============================================================================
