--------------------------- MODULE MC_BitStr ---------------------------
(* C09, scaled exhaustive (BB bits per byte, SW = the short-compare switch of cmpBytes).        *)
(* The byte layout of bitstr.New (payload bytes, the last one masked, then the mask byte;       *)
(* 2^BB - 1 alone for the aligned empty string), Len (BB*len - 2BB + popcount(mask byte)),      *)
(* Cmp (byte compare including the mask byte iff the byte lengths are equal), cmpBytes (loop    *)
(* below SW bytes) and CmpUpto (truncate, compare all but the last byte, then the masked last   *)
(* byte) equal the definitions: the encoded object IS the bit string s[BB*floor(from/BB), to),  *)
(* Cmp is the lexicographic order of bit strings (a strict total order, proper prefix first),   *)
(* CmpUpto compares the first Len(b) bits of the plain bytes.                                   *)
EXTENDS Strs, TLC

CONSTANTS MaxLen, SW
VARIABLES s, from, to, s2, to2, a
vars == <<s, from, to, s2, to2, a>>

Bytes == 0..(2 ^ BB - 1)
Strings(k) == UNION {[1..j -> Bytes] : j \in 0..k}
Init == /\ s \in Strings(MaxLen) /\ to \in 0..(BB * MaxLen) /\ to <= NBits(s) /\ from \in 0..to
        /\ s2 = <<>> /\ to2 = -1 /\ a = <<>>
\* one step picks the second operand: another encoded string (from 0) and a plain byte string
Next == /\ to2 = -1 /\ from = 0 /\ UNCHANGED <<s, from, to>>
        /\ s2' \in Strings(MaxLen) /\ to2' \in 0..(BB * MaxLen) /\ to2' <= NBits(s2')
        /\ a' \in {s2'} \cup {SubSeq(s2', 1, k) : k \in 0..Len(s2')} \cup {s2' \o <<x>> : x \in {0, 2 ^ BB - 1}}
Spec == Init /\ [][Next]_vars

\* ---- the code
PopByte(v) == LET RECURSIVE P(_)
                  P(x) == IF x = 0 THEN 0 ELSE (x % 2) + P(x \div 2)
              IN P(v)
AndByte(x, y) == LET RECURSIVE A(_, _, _)
                     A(p, q, k) == IF k = BB THEN 0 ELSE ((p % 2) * (q % 2)) * (2 ^ k) + A(p \div 2, q \div 2, k + 1)
                 IN A(x, y, 0)
NewAlg(str, f, t) ==
    IF f = t /\ f % BB = 0 THEN <<2 ^ BB - 1>>
    ELSE LET fromByte == f \div BB
             toByte == (t + BB - 1) \div BB
             len == toByte - fromByte
             k == (BB - (t % BB)) % BB                              \* (8 - toBit) & 7
             mask == 2 ^ BB - 2 ^ k                                 \* byte(RMask[k])
             payload == SubSeq(str, fromByte + 1, toByte)
         IN [payload EXCEPT ![len] = AndByte(@, mask)] \o <<mask>>
LenAlg(bs) == BB * Len(bs) - 2 * BB + PopByte(bs[Len(bs)])
BytesCompare(x, y) == LexCmp(x, y)                                  \* bytes.Compare
CmpAlg(x, y) == IF Len(x) = Len(y) THEN BytesCompare(x, y)
                ELSE BytesCompare(SubSeq(x, 1, Len(x) - 1), SubSeq(y, 1, Len(y) - 1))
CmpBytesAlg(x, y) ==
    IF Len(x) < SW
    THEN LET RECURSIVE L(_)
             L(i) == IF i > Len(x) THEN (IF i - 1 < Len(y) THEN -1 ELSE 0)
                     ELSE IF x[i] < y[i] THEN -1 ELSE IF x[i] > y[i] THEN 1 ELSE L(i + 1)
         IN L(1)
    ELSE BytesCompare(x, y)
CmpUptoAlg(x, b) ==
    LET la == Len(x)  lb == Len(b) IN
    IF lb = 1 THEN 0
    ELSE IF la < lb - 1 THEN CmpBytesAlg(x, SubSeq(b, 1, lb - 1))
    ELSE LET rst == CmpBytesAlg(SubSeq(x, 1, lb - 2), SubSeq(b, 1, lb - 2))
             bytea == AndByte(x[lb - 1], b[lb])
             byteb == b[lb - 1]
         IN IF rst # 0 THEN rst ELSE IF bytea > byteb THEN 1 ELSE IF bytea < byteb THEN -1 ELSE 0

\* ---- A = D
X == EncBits(s, from, to)
E1 == NewAlg(s, from, to)
LenOK == LenAlg(E1) = Len(X)
Paired == to2 >= 0
Y == EncBits(s2, 0, to2)
E2 == NewAlg(s2, 0, to2)
CmpOK == Paired => /\ CmpAlg(E1, E2) = LexCmp(X, Y) /\ CmpAlg(E2, E1) = LexCmp(Y, X)
                   /\ (CmpAlg(E1, E2) = 0 <=> X = Y)                 \* 0 exactly for equal bit strings
                   /\ CmpAlg(E1, E2) = -CmpAlg(E2, E1)               \* antisymmetric
CmpUptoOK == Paired => /\ CmpUptoAlg(a, E1) = CmpUptoD(a, X)
                       /\ CmpUptoAlg(a, E2) = CmpUptoD(a, Y)
                       /\ CmpUptoAlg(s, E2) = CmpUptoD(s, Y)
==========================================================================
