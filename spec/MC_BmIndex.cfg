SPECIFICATION Spec
CONSTANTS
  MaxH = 8
  MaxH5 = 15
INVARIANTS IndexAgree IdxBijection I2POK
CHECK_DEADLOCK FALSE
