SPECIFICATION Spec
CONSTANTS
  W = 4
  K = 2
  MaxWords = 3
INVARIANTS IndexesOK RankOK VecOK RankOfOne
CHECK_DEADLOCK FALSE
