--------------------------- MODULE MC_PbFrame ---------------------------
(* C06 and C07, scaled exhaustive (VL = 2 version bytes, FW = 1 field byte, H = 4).             *)
(* The stream machine of PbFrame is explored over: up to MaxFrames Marshal calls with every      *)
(* writer failure point (header write / body write, partial acceptance), every one-byte          *)
(* corruption of a header field, then Unmarshal / ReadHeader calls with every cut point, EOF or  *)
(* injected read error, every chunk size of the reader.  The code's reading algorithm            *)
(* (io.ReadFull as a loop of Read calls of arbitrary chunk size; header, size checks, body) is   *)
(* modelled step by step (UnmarshalAlg) and must satisfy the outcome relation UnmarshalOK that   *)
(* trace validation uses, independently of the chunk size; and the properties are checked:       *)
(* round trip, one frame per call, truncation never succeeds, the counts, the error classes.     *)
EXTENDS PbFrame, TLC

CONSTANTS Big, MaxFrames, MaxReads
\* (a .cfg file cannot hold sequences)
Vers == {<<>>, <<65>>, <<65, 66>>, <<0, 66>>}          \* at most VL bytes, not ending in NUL
Bodies == IF Big THEN {<<>>, <<7>>, <<7, 9>>, <<200, 0, 1>>} ELSE {<<>>, <<7>>, <<200, 1>>}
VARIABLES frames, nreads, last
vars == <<wire, rpos, good, frames, nreads, last>>

NoOp == [op |-> "none"]
Init == wire = <<>> /\ rpos = 0 /\ good = {} /\ frames = <<>> /\ nreads = 0 /\ last = NoOp

\* ---- io.ReadFull over a reader that returns at most `chunk` bytes per Read
RECURSIVE RFLoop(_, _, _, _, _)
RFLoop(need, left, fault, chunk, got) ==       \* left: bytes the source still delivers
    IF got = need THEN <<got, "nil">>
    ELSE IF left = 0 THEN <<got, IF fault = "inj" THEN "inj" ELSE IF got = 0 THEN "EOF" ELSE "UnexpectedEOF">>
    ELSE LET c == PMin(PMin(chunk, need - got), left) IN RFLoop(need, left - c, fault, chunk, got + c)

\* ---- Unmarshal as the code does it (after the body-size fix: the body is read as it arrives)
UnmarshalAlg(data, avail, fault, chunk) ==
    LET r1 == RFLoop(H, avail, fault, chunk, 0) IN
    IF r1[2] # "nil" THEN [n |-> r1[1], err |-> r1[2], ver |-> <<>>, body |-> <<>>]
    ELSE LET ver == VerStr(SubSeq(data, 1, VL))
             hs  == SubSeq(data, VL + 1, VL + FW)
             bs  == SubSeq(data, VL + FW + 1, H)
         IN IF hs # LE(H) THEN [n |-> H, err |-> "InvalidHeaderSize", ver |-> ver, body |-> <<>>]
            ELSE IF FieldNeg(bs) THEN [n |-> H, err |-> "InvalidBodySize", ver |-> ver, body |-> <<>>]
            ELSE LET need == FieldVal(bs)
                     r2 == RFLoop(need, avail - H, fault, chunk, 0)
                 IN IF r2[2] # "nil" THEN [n |-> H + r2[1], err |-> r2[2], ver |-> ver, body |-> <<>>]
                    ELSE [n |-> H + need, err |-> "nil", ver |-> ver, body |-> SubSeq(data, H + 1, H + need)]

DoMarshal ==
    /\ Len(frames) < MaxFrames /\ nreads = 0
    /\ \E ver \in Vers, body \in Bodies, e1 \in BOOLEAN, e2 \in BOOLEAN, k1 \in 0..H, k2 \in 0..3 :
          /\ (~e1 => k1 = H) /\ (e1 => e2 = FALSE /\ k2 = 0) /\ k2 <= Len(body) /\ (~e2 => k2 = Len(body))
          /\ Marshal(ver, body, "raw", k1, e1, k2, e2)
          /\ LET r == MarshalResult(ver, body, k1, e1, k2, e2) IN
             /\ last' = [op |-> "marshal", n |-> r.n, err |-> r.err, grew |-> r.out, frame |-> Frame(ver, body)]
             /\ frames' = Append(frames, [off |-> Len(wire), ver |-> ver, body |-> body, ok |-> r.err = "nil"])
    /\ UNCHANGED nreads
\* corrupt one header field byte of the frame that starts at the read position
DoCorrupt ==
    /\ nreads = 0 /\ Len(wire) >= H /\ last.op = "marshal"
    /\ \E pos \in {VL + 1, VL + FW + 1}, v \in {0, 3, 5, 127, 128, 255} :
          /\ wire' = [wire EXCEPT ![pos] = v] /\ good' = {}
    /\ last' = [op |-> "corrupt"] /\ UNCHANGED <<rpos, frames, nreads>>
DoUnmarshal ==
    /\ nreads < MaxReads /\ nreads' = nreads + 1
    /\ \E avail \in 0..(Len(wire) - rpos + 1), fault \in {"EOF", "inj"}, chunk \in 1..3 :
          LET a == PMin(avail, Len(Rest))
              f == IF avail >= Len(Rest) THEN "EOF" ELSE fault
              obs == UnmarshalAlg(Rest, a, f, chunk)
          IN /\ Unmarshal(avail, fault, "raw", obs)                   \* the algorithm satisfies the outcome relation
             /\ last' = [op |-> "unmarshal", obs |-> obs, at |-> rpos, avail |-> a, fault |-> f,
                         whole |-> UnmarshalAlg(Rest, a, f, 3)]
    /\ UNCHANGED frames
Next == DoMarshal \/ DoCorrupt \/ DoUnmarshal
Spec == Init /\ [][Next]_vars

\* ---- the properties
\* Marshal: n = bytes written = growth of the stream = first n bytes of the frame; Size = H + len
MarshalCounts == last.op = "marshal" =>
    /\ Len(last.grew) = last.n /\ last.grew = SubSeq(last.frame, 1, last.n)
    /\ (last.err = "nil" => last.n = Len(last.frame))
\* the code's two-write Marshal is an instance of the split-independent form used by trace validation
TwoWritesAreAny == last.op = "marshal" =>
    \E ver \in Vers, body \in Bodies : /\ last.frame = Frame(ver, body)
        /\ \E c \in {<< [offered |-> H, k |-> k1, e |-> TRUE] >> : k1 \in 0..H}
                 \cup {<< [offered |-> H, k |-> H, e |-> FALSE], [offered |-> Len(body), k |-> k2, e |-> e2] >> : k2 \in 0..Len(body), e2 \in BOOLEAN} :
              MarshalAnyOK(ver, body, c, [n |-> last.n, err |-> last.err, written |-> last.grew])
\* the relation is never disabled for the algorithm: every Unmarshal step above was taken (no deadlock of DoUnmarshal)
\* result independent of how the reader chunks the bytes
ChunkIndependent == last.op = "unmarshal" => last.obs = last.whole
FrameAt(o) == {i \in DOMAIN frames : frames[i].off = o /\ frames[i].ok}
\* round trip: a complete, uncorrupted frame at the read position is returned, and exactly it is consumed
RoundTrip == (last.op = "unmarshal" /\ <<last.at, "raw">> \in good) =>
    \A i \in FrameAt(last.at) :
       LET flen == H + Len(frames[i].body) IN
       IF last.avail >= flen
       THEN /\ last.obs.err = "nil" /\ last.obs.n = flen
            /\ last.obs.ver = frames[i].ver /\ last.obs.body = frames[i].body
       \* truncation: never a success; count = bytes available; EOF iff nothing was available
       ELSE /\ last.obs.err # "nil" /\ last.obs.n = last.avail
            /\ (last.fault = "EOF" => /\ (last.avail = 0 => last.obs.err = "EOF")
                                      /\ (last.avail > 0 /\ last.avail # H => last.obs.err = "UnexpectedEOF")
                                      /\ (last.avail = H => last.obs.err \in {"EOF", "UnexpectedEOF"}))
            /\ (last.fault = "inj" => last.obs.err = "inj")
\* success only if a complete frame was present; the count never exceeds what was available
SuccessNeedsFrame == last.op = "unmarshal" =>
    /\ last.obs.n <= last.avail
    /\ (last.obs.err = "nil" => last.avail >= H /\ last.obs.n = H + Len(last.obs.body))
ReadPosInside == rpos <= Len(wire)
===========================================================================
