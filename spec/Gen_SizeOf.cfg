SPECIFICATION Spec
CONSTANTS
  D = 1
  Sample = 6
INVARIANTS Laws Emit
CHECK_DEADLOCK FALSE
