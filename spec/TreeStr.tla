--------------------------- MODULE TreeStr ---------------------------
(* Specification growth beyond the listed properties: package tree (tree/tree.go).             *)
(* A tree node is [id, info, leaf, val, kids] with kids a sequence of [label, node].             *)
(*   DepthFirst visits the children in order, then the node itself (post-order), reporting       *)
(*   (parent id, incoming label, node id); the root has parent "" and label "".                   *)
(*   String renders one line per node: "-<label>->" (not for the root), "#<id>" if the id is      *)
(*   non-empty, the node info, "*<n>" if it has more than one child, "=<val>" if it is a leaf;    *)
(*   the lines of a subtree are indented by the length of the part of the parent's line that      *)
(*   precedes its info.                                                                           *)
EXTENDS Integers, Sequences, TLC

RECURSIVE PostOrder(_, _, _)
PostOrder(parent, label, nd) ==
    LET RECURSIVE Kids(_)
        Kids(i) == IF i > Len(nd.kids) THEN <<>>
                   ELSE PostOrder(nd.uid, nd.kids[i].label, nd.kids[i].node) \o Kids(i + 1)
    IN Kids(1) \o << <<parent, label, nd.uid>> >>

RECURSIVE Spaces(_)
Spaces(n) == IF n = 0 THEN "" ELSE " " \o Spaces(n - 1)
Head1(nd, inlabel) == (IF inlabel # "" THEN "-" \o inlabel \o "->" ELSE "") \o (IF nd.id # "" THEN "#" \o nd.id ELSE "")
Line(nd, inlabel) ==
    Head1(nd, inlabel) \o nd.info
    \o (IF Len(nd.kids) > 1 THEN "*" \o ToString(Len(nd.kids)) ELSE "")
    \o (IF nd.leaf THEN "=" \o ToString(nd.val) ELSE "")
RECURSIVE Render(_, _)
Render(nd, inlabel) ==
    LET ind == Spaces(Len(Head1(nd, inlabel)))
        RECURSIVE Kids(_)
        Kids(i) == IF i > Len(nd.kids) THEN <<>>
                   ELSE LET sub == Render(nd.kids[i].node, nd.kids[i].label)
                        IN [j \in 1..Len(sub) |-> ind \o sub[j]] \o Kids(i + 1)
    IN <<Line(nd, inlabel)>> \o Kids(1)
=======================================================================
