--------------------------- MODULE MC_SectionWriter ---------------------------
(* Scaled exhaustive check of C18: every interleaving of Write/WriteAt/Seek/Size with every     *)
(* buffer length, offset, whence and every behaviour of the underlying writer, up to a depth.   *)
EXTENDS SectionWriter, TLC

CONSTANTS Bases, Sizes, MaxLen, MaxDepth
Offsets == {-3, -1, 0, 1, 2, 3, 5}
Whences == {0, 1, 2, 3}
Bufs == {[i \in 1..n |-> i] : n \in 0..MaxLen}

VARIABLES depth, op     \* op: the last operation with its arguments (observation only)
vars == <<base, limit, cur, calls, ret, depth, op>>

Init == /\ \E b \in Bases, n \in Sizes : base = b /\ cur = b /\ limit = b + n
        /\ calls = <<>> /\ ret = [n |-> 0, err |-> "nil"] /\ depth = 0 /\ op = [k |-> "New"]

Next == /\ depth < MaxDepth /\ depth' = depth + 1
        /\ \/ \E p \in Bufs, k \in 0..MaxLen, e \in BOOLEAN : Write(p, k, e) /\ op' = [k |-> "Write", p |-> p]
           \/ \E p \in Bufs, off \in Offsets, k \in 0..MaxLen, e \in BOOLEAN : WriteAt(p, off, k, e) /\ op' = [k |-> "WriteAt", p |-> p, off |-> off]
           \/ \E off \in Offsets, w \in Whences : Seek(off, w) /\ op' = [k |-> "Seek", off |-> off, w |-> w]
           \/ Size /\ op' = [k |-> "Size"]

Spec == Init /\ [][Next]_vars

\* ---- C18 on the model
\* the count returned equals the bytes the underlying writer accepted
CountIsAccepted == op.k \in {"Write", "WriteAt"} =>
    ret.n = (IF calls = <<>> THEN 0 ELSE calls[1].k)
\* contents: what reaches the underlying writer is the corresponding prefix of the buffer
ContentIsPrefix == op.k \in {"Write", "WriteAt"} =>
    \A i \in DOMAIN calls : calls[i].p = SubSeq(op.p, 1, Len(calls[i].p))
\* ErrShortWrite exactly when truncated by, or starting at or beyond, the section end (and the underlying writer did not fail)
ShortWriteExactly == op.k \in {"Write", "WriteAt"} =>
    LET offered == IF calls = <<>> THEN 0 ELSE Len(calls[1].p)
        failed  == calls # <<>> /\ calls[1].e
    IN /\ failed => ret.err = "inj"
       /\ ~failed => ((ret.err = "ShortWrite") <=> (calls = <<>> \/ offered < Len(op.p)))
       /\ ~failed /\ ret.err # "ShortWrite" => ret.err = "nil"
\* a request starting inside the section always reaches the underlying writer
NoCallOnlyOutside == [][(op'.k = "Write" /\ calls' = <<>>) => cur >= limit]_vars
WriteMovesCursorByCount == [][op'.k = "Write" => cur' = cur + ret'.n]_vars
WriteAtKeepsCursor == [][op'.k \in {"WriteAt", "Size"} => cur' = cur]_vars
SeekSemantics == [][op'.k = "Seek" =>
    \/ ret'.err = "nil" /\ cur' - base = ret'.n /\ cur' >= base
    \/ ret'.err \in {"Whence", "Offset"} /\ cur' = cur /\ ret'.n = 0]_vars
SizeIsN == op.k = "Size" => ret.n = limit - base
================================================================================
