--------------------------- MODULE BuilderInd ---------------------------
(* The Builder part of C12 as an inductive invariant, for Apalache (symbolic): from ANY state    *)
(* satisfying IndInv - not only the reachable ones TLC enumerates - an Extend or Set step leads   *)
(* to a state satisfying it: while only Extend was called with ascending shifted positions, the   *)
(* Builder holds exactly the bitmap Of builds (the listed bits, Offset = sum of sizes,            *)
(* ceil(max(sum, last+1)/W) words).  A segment is given by the SET of its relative positions.     *)
EXTENDS Integers, FiniteSets

CONSTANTS
    \* @type: Int;
    W,
    \* @type: Int;
    MaxRel,
    \* @type: Int;
    MaxOff

VARIABLES
    \* @type: Int;
    offset,
    \* @type: Int;
    nw,
    \* @type: Set(Int);
    ones,
    \* @type: Int;
    sum,
    \* @type: Set(Int);
    allpos,
    \* @type: Bool;
    pure

CInitQ == W = 4 /\ MaxRel = 9 /\ MaxOff = 24
CInitT == W = 8 /\ MaxRel = 20 /\ MaxOff = 64

Abs == 0..(MaxOff + MaxRel)
CeilDiv(a, b) == (a + b - 1) \div b
MaxI(a, b) == IF a > b THEN a ELSE b
\* @type: (Set(Int)) => Int;
TopOf(S) == IF S = {} THEN -1 ELSE CHOOSE m \in S : \A y \in S : y <= m
\* @type: (Set(Int)) => Int;
LowOf(S) == IF S = {} THEN 0 ELSE CHOOSE m \in S : \A y \in S : y >= m
\* the words Of allots: ceil(max(n, last + 1, 0) / W)
\* @type: (Set(Int), Int) => Int;
OfWords(P, n) == CeilDiv(MaxI(MaxI(n, TopOf(P) + 1), 0), W)

Init == offset = 0 /\ nw = 0 /\ ones = {} /\ sum = 0 /\ allpos = {} /\ pure = TRUE

\* @type: (Set(Int), Int) => Bool;
Extend(P, size) ==
    LET last == TopOf(P)
        end  == IF last >= size THEN offset + last + 1 ELSE offset + size
        shifted == {offset + p : p \in P}
    IN /\ offset + size <= MaxOff /\ sum + size <= MaxOff          \* stay inside the bounded universe
       /\ nw' = MaxI(nw, CeilDiv(end, W))
       /\ ones' = ones \union shifted
       /\ offset' = offset + size
       /\ sum' = sum + size
       /\ allpos' = allpos \union shifted
       /\ pure' = (pure /\ ((P # {} /\ allpos # {}) => offset + LowOf(P) > TopOf(allpos)))

\* @type: (Int, Int) => Bool;
SetBit(pos, val) ==
    /\ nw' = MaxI(nw, pos \div W + 1)
    /\ ones' = (IF val = 1 THEN ones \union {pos} ELSE ones)
    /\ offset' = MaxI(offset, pos + 1)
    /\ pure' = FALSE /\ UNCHANGED <<sum, allpos>>

Next == \/ \E P \in SUBSET (0..MaxRel), size \in 0..MaxRel : Extend(P, size)
        \/ \E pos \in 0..MaxOff, val \in {0, 1} : SetBit(pos, val)

TypeOK == /\ offset \in 0..(MaxOff + 1) /\ sum \in 0..MaxOff /\ nw \in 0..(MaxOff + MaxRel + W)
          /\ ones \in SUBSET Abs /\ allpos \in SUBSET Abs /\ pure \in BOOLEAN
IndInv ==
    /\ TypeOK
    /\ \A x \in ones : x >= 0 /\ x < W * nw                                       \* enough words for every bit
    /\ (pure => /\ ones = allpos /\ offset = sum /\ nw = OfWords(allpos, sum))    \* Extends build what Of builds
IndInit == IndInv
\* sanity: must be refuted
BadNeverGrows == nw = 0
===========================================================================
