SPECIFICATION Spec
CONSTANTS
  VL = 2
  FW = 1
  Inf = 100000
  Big = TRUE
  MaxFrames = 1
  MaxReads = 2
INVARIANTS TwoWritesAreAny MarshalCounts ChunkIndependent RoundTrip SuccessNeedsFrame ReadPosInside
CHECK_DEADLOCK FALSE
