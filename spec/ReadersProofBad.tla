--------------------------- MODULE ReadersProofBad ---------------------------
(* TLAPS: C19 on the model, for ANY number of processes, calls and memory cells and any schedule:  *)
(* when no reader action writes shared memory (Buggy = FALSE: ScratchWrite is disabled), memory     *)
(* never changes and every finished call returns the result of sequential execution.  The point of  *)
(* the theorem is its hypothesis: the property holds BECAUSE no action writes mem; with Buggy = TRUE *)
(* the proof fails (ReadersProofBad) and TLC finds the violation (MC_Readers_buggy.cfg).            *)
EXTENDS Readers, TLAPS

ASSUME NotBuggy == Buggy = TRUE      \* (false variant: a reader may write shared memory)

Inv == /\ mem = mem0
       /\ \A c \in DOMAIN val : val[c] = c

THEOREM InitInv == Init => Inv
  BY DEF Init, Inv

THEOREM StepInv == Inv /\ [Next]_rvars => Inv' /\ mem' = mem
<1> SUFFICES ASSUME Inv, [Next]_rvars PROVE Inv' /\ mem' = mem
  OBVIOUS
<1>1. ASSUME NEW p \in Procs, NEW c \in Calls, Start(p, c) PROVE Inv' /\ mem' = mem
  BY <1>1 DEF Start, Inv
<1>2. ASSUME NEW p \in Procs, NEW r \in Results, Finish(p, r) PROVE Inv' /\ mem' = mem
  <2>1. mem' = mem /\ mem0' = mem0
    BY <1>2 DEF Finish
  <2>2. Eval(pc[p], mem) = pc[p]
    BY DEF Inv, Eval
  <2>3. \A c \in DOMAIN val' : val'[c] = c
    BY <1>2, <2>2 DEF Finish, Inv
  <2> QED BY <2>1, <2>3 DEF Inv
<1>3. ASSUME NEW p \in Procs, NEW x \in Cells, ScratchWrite(p, x) PROVE FALSE
  BY <1>3, NotBuggy DEF ScratchWrite
<1>4. ASSUME UNCHANGED rvars PROVE Inv' /\ mem' = mem
  BY <1>4 DEF Inv, rvars
<1> QED BY <1>1, <1>2, <1>3, <1>4 DEF Next

THEOREM Safety == Spec => [](MemUnchanged /\ ResultsAreCalls)
  <1>1. Inv => MemUnchanged /\ ResultsAreCalls
    BY DEF Inv, MemUnchanged, ResultsAreCalls
  <1> QED BY InitInv, StepInv, <1>1, PTL DEF Spec
=============================================================================
