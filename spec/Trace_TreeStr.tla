--------------------------- MODULE Trace_TreeStr ---------------------------
(* Trace validation of tree.DepthFirst and tree.String against TreeStr. *)
EXTENDS TreeStr, TraceIO
VARIABLE l
Ev == Trace[l]
IsEvent(k) == l <= Len(Trace) /\ Ev.k = k /\ Ev.abn = "" /\ l' = l + 1
TraceTree == /\ IsEvent("tree")
             /\ Ev.out.visits = PostOrder("", "", Ev.in.tree)
             /\ Ev.out.lines = Render(Ev.in.tree, "")
TraceInit == l = 1
TraceNext == TraceTree
TraceSpec == TraceInit /\ [][TraceNext]_l
=============================================================================
