--------------------------- MODULE Trace_TailBitmap ---------------------------
(* Trace validation of bitmap.TailBitmap (C15).  Every recorded call must be a step of the  *)
(* TailBitmap state machine whose post-state projection (Offset, len(Words), stored 1-bits)  *)
(* equals the one logged after the call, every Get/Get1 must return what the machine says,    *)
(* and the history monitor of the property (o0, ever) must agree with the logged state.       *)
(* "ever" is kept trimmed to positions >= offset (MC_TailBitmap.MonitorEquiv shows the        *)
(* trimmed monitor equals the full history form); positions passed by Offset are checked      *)
(* when they are passed (PassedOnlySet).                                                      *)
EXTENDS TailBitmap, TraceIO

VARIABLES l, o0, ever
tvars == <<offset, nw, bits, reclaimed, l, o0, ever>>

Ev == Trace[l]
IsEvent(k) == l <= Len(Trace) /\ Ev.k = k /\ Ev.abn = "" /\ l' = l + 1

\* The machine's post-state, computed with the functional forms of the actions (MC_TailBitmap checks that they
\* ARE the actions).  What the property fixes is compared with the log: Offset and the stored 1-bits.  The
\* number of stored words is only required to hold every stored bit (the property does not fix capacity or
\* spare words), so it is taken from the log; the unexported reclaim bookkeeping is not compared at all.
\* The stored 1-bits are logged one by one (st.ones) or, for states with thousands of them, as runs
\* <<first, length>> (st.runs).
StOnes(st) == ToSet(st.ones) \cup UNION {r[1]..(r[1] + r[2] - 1) : r \in ToSet(st.runs)}
Post(m, st) == /\ offset' = m[1] /\ bits' = m[3] /\ reclaimed' = m[4] /\ nw' = st.nw
               /\ st.off = m[1] /\ StOnes(st) = m[3] /\ st.nw >= 0

Trim(S, o) == {x \in S : x >= o}

TraceNew ==
    /\ IsEvent("New")
    \* positions are logged relative to the initial offset (translation invariance): o0 = 0
    /\ Post(<<0, 0, {}, 0>>, Ev.st) /\ o0' = 0 /\ ever' = {}
    /\ Ev.omod = 0
    /\ Aligned' /\ InRange'

TraceSet ==
    /\ IsEvent("Set")
    /\ Post(SetF(tbvars, Ev.idx), Ev.st)
    /\ ever' = Trim(ever \cup {Ev.idx}, offset') /\ o0' = o0
    /\ Aligned' /\ InRange' /\ offset' >= offset                    \* multiple of W, every bit stored, never decreases
    /\ \A j \in offset..(offset' - 1) : j \in ever \/ j = Ev.idx        \* never moves past a 0
    /\ bits' = ever'                                               \* neither forgets nor invents
    /\ (nw' > 0 => ~Full(offset', bits'))                          \* head word not all-ones after Set

\* the macro-step Set(lo); ...; Set(hi-1) beyond the head word (TailBitmap!SetRangeF): one event
TraceSetRange ==
    /\ IsEvent("SetRange")
    /\ RangeOK(tbvars, Ev.lo, Ev.hi)
    /\ Post(SetRangeF(tbvars, Ev.lo, Ev.hi), Ev.st)
    /\ ever' = ever \cup (Ev.lo..(Ev.hi - 1)) /\ o0' = o0
    /\ Aligned' /\ InRange' /\ offset' = offset
    /\ bits' = ever'
    /\ (nw' > 0 => ~Full(offset', bits'))

TraceCompact ==
    /\ IsEvent("Compact")
    /\ Post(CompactF(tbvars), Ev.st)
    /\ ever' = Trim(ever, offset') /\ o0' = o0
    /\ Aligned' /\ InRange' /\ offset' >= offset
    /\ \A j \in offset..(offset' - 1) : j \in ever
    /\ bits' = ever'
    \* Compact changes no Get result
    /\ \A j \in offset..(offset + W * nw - 1) : Get1Val(j)' = Get1Val(j)

\* history form of the expected answer, independent of the machine's own bits
Expected1(j) == IF j < o0 \/ j < offset \/ j \in ever THEN 1 ELSE 0

TraceGet ==
    /\ IsEvent("Get")
    /\ Stored(Ev.j)
    /\ ToSet(Ev.r) = GetVal(Ev.j)
    /\ ToSet(Ev.r) = (IF Expected1(Ev.j) = 1 THEN {Ev.j % W} ELSE {})
    /\ UNCHANGED <<o0, ever>> /\ Post(tbvars, Ev.st)

TraceGet1 ==
    /\ IsEvent("Get1")
    /\ Stored(Ev.j)
    /\ ToSet(Ev.r) = (IF Get1Val(Ev.j) = 1 THEN {0} ELSE {})
    /\ Get1Val(Ev.j) = Expected1(Ev.j)
    /\ UNCHANGED <<o0, ever>> /\ Post(tbvars, Ev.st)

TraceInit == offset = 0 /\ nw = 0 /\ bits = {} /\ reclaimed = 0 /\ l = 1 /\ o0 = 0 /\ ever = {}
TraceNext == TraceNew \/ TraceSet \/ TraceSetRange \/ TraceCompact \/ TraceGet \/ TraceGet1
TraceSpec == TraceInit /\ [][TraceNext]_tvars
===============================================================================
