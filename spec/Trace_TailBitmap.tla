--------------------------- MODULE Trace_TailBitmap ---------------------------
(* Trace validation of bitmap.TailBitmap (C15).  Every recorded call must be a step of the  *)
(* TailBitmap state machine whose post-state projection (Offset, len(Words), stored 1-bits)  *)
(* equals the one logged after the call, every Get/Get1 must return what the machine says,    *)
(* and the history monitor of the property (o0, ever) must agree with the logged state.       *)
(* "ever" is kept trimmed to positions >= offset (MC_TailBitmap.MonitorEquiv shows the        *)
(* trimmed monitor equals the full history form); positions passed by Offset are checked      *)
(* when they are passed (PassedOnlySet).                                                      *)
EXTENDS TailBitmap, TraceIO

VARIABLES l, o0, ever
tvars == <<offset, nw, bits, reclaimed, l, o0, ever>>

Ev == Trace[l]
IsEvent(k) == l <= Len(Trace) /\ Ev.k = k /\ Ev.abn = "" /\ l' = l + 1

\* the logged post-state equals the machine's post-state
StateMatches(st) == /\ offset' = st.off /\ nw' = st.nw /\ bits' = ToSet(st.ones)
                    /\ (st.rec >= 0 => reclaimed' = st.rec)      \* unexported bookkeeping, through the verif hook

Trim(S, o) == {x \in S : x >= o}

\* the property, evaluated on the post-state of every step (as primed conjuncts, so that a
\* violation rejects the event instead of printing a counterexample as long as the trace)
PropertyHolds ==
    /\ Aligned' /\ InRange'
    /\ offset' >= offset                                   \* never decreases
    /\ \A j \in offset..(offset' - 1) : j \in ever'\cup ever  \* never moves past a 0
    /\ bits' = Trim(ever', offset')                        \* neither forgets nor invents

TraceNew ==
    /\ IsEvent("New")
    \* positions are logged relative to the initial offset (translation invariance): o0 = 0
    /\ New(0) /\ o0' = 0 /\ ever' = {}
    /\ Ev.omod = 0
    /\ StateMatches(Ev.st) /\ Aligned' /\ InRange'

TraceSet ==
    /\ IsEvent("Set")
    /\ Set(Ev.idx)
    /\ ever' = Trim(ever \cup {Ev.idx}, offset') /\ o0' = o0
    /\ StateMatches(Ev.st)
    /\ Aligned' /\ InRange' /\ offset' >= offset
    /\ \A j \in offset..(offset' - 1) : j \in (ever \cup {Ev.idx})
    /\ bits' = ever'
    /\ (nw' > 0 => ~Full(offset', bits'))                  \* head word not all-ones after Set

TraceCompact ==
    /\ IsEvent("Compact")
    /\ Compact
    /\ ever' = Trim(ever, offset') /\ o0' = o0
    /\ StateMatches(Ev.st)
    /\ Aligned' /\ InRange' /\ offset' >= offset
    /\ \A j \in offset..(offset' - 1) : j \in ever
    /\ bits' = ever'
    \* Compact changes no Get result
    /\ \A j \in offset..(offset + W * nw - 1) : Get1Val(j)' = Get1Val(j)

\* history form of the expected answer, independent of the machine's own bits
Expected1(j) == IF j < o0 \/ j < offset \/ j \in ever THEN 1 ELSE 0

TraceGet ==
    /\ IsEvent("Get")
    /\ Stored(Ev.j)
    /\ ToSet(Ev.r) = GetVal(Ev.j)
    /\ ToSet(Ev.r) = (IF Expected1(Ev.j) = 1 THEN {Ev.j % W} ELSE {})
    /\ UNCHANGED <<tbvars, o0, ever>>
    /\ StateMatches(Ev.st)

TraceGet1 ==
    /\ IsEvent("Get1")
    /\ Stored(Ev.j)
    /\ ToSet(Ev.r) = (IF Get1Val(Ev.j) = 1 THEN {0} ELSE {})
    /\ Get1Val(Ev.j) = Expected1(Ev.j)
    /\ UNCHANGED <<tbvars, o0, ever>>
    /\ StateMatches(Ev.st)

TraceInit == offset = 0 /\ nw = 0 /\ bits = {} /\ reclaimed = 0 /\ l = 1 /\ o0 = 0 /\ ever = {}
TraceNext == TraceNew \/ TraceSet \/ TraceCompact \/ TraceGet \/ TraceGet1
TraceSpec == TraceInit /\ [][TraceNext]_tvars
===============================================================================
