--------------------------- MODULE Trace_SectionWriter2 ---------------------------
(* Trace validation of a SectionWriter laid over another SectionWriter (C18 for the composition). *)
(* Events: New2 (both sections), then operations on the outer section (Write, WriteAt, Seek,      *)
(* Size) and on the inner one directly (IWrite, IWriteAt, ISeek).  `under` holds the calls that    *)
(* reached the innermost, scripted writer (offsets relative to the inner section's start); the     *)
(* returned count and error class, both cursors (verif hook) and those calls must be the ones the  *)
(* composed machine SectionWriter2 produces.                                                       *)
EXTENDS SectionWriter2, TraceIO, SWEnv

VARIABLES l
tvars == <<vars2, l>>

Ev == Trace[l]
IsEvent(k) == l <= Len(Trace) /\ Ev.k = k /\ Ev.abn = "" /\ l' = l + 1

EnvK == EnvKOf(Ev.under)
EnvE == EnvEOf(Ev.under)
ErrMatches(logged, model) == IF model \in {"Whence", "Offset"} THEN logged # "nil" ELSE logged = model

Common == /\ UnderOK(Ev.under, icalls')
          /\ (Ev.ocur >= 0 => Ev.ocur = ocur')
          /\ (Ev.icur >= 0 => Ev.icur = icur')
          /\ Confined2' /\ I!Confined' /\ I!CursorNotBeforeBase' /\ O!CursorNotBeforeBase'
MatchesO == Ev.rn = oret'.n /\ ErrMatches(Ev.err, OErr') /\ Common
MatchesI == Ev.rn = iret'.n /\ ErrMatches(Ev.err, iret'.err) /\ Common

\* the inner section starts at 0 (offsets are logged relative to it); the outer section's offset and length are
\* those given to NewSectionWriter(inner, ob, on)
TraceNew2     == IsEvent("New2") /\ Ev.inn >= 0 /\ Ev.ob >= 0 /\ Ev.on >= 0 /\ New2(0, Ev.inn, Ev.ob, Ev.on) /\ Ev.under = <<>>
\* (buffers are never empty in these histories: whether a call that offers no bytes is passed on is left open,
\* and here the answer of the inner section to such a call would show)
TraceWrite    == IsEvent("Write")    /\ Len(Ev.p) > 0 /\ OWrite(Ev.p, EnvK, EnvE) /\ MatchesO
TraceWriteAt  == IsEvent("WriteAt")  /\ Len(Ev.p) > 0 /\ OWriteAt(Ev.p, Ev.off, EnvK, EnvE) /\ MatchesO
TraceSeek     == IsEvent("Seek")     /\ OSeek(Ev.off, Ev.w) /\ MatchesO
TraceSize     == IsEvent("Size")     /\ OSize /\ MatchesO
TraceIWrite   == IsEvent("IWrite")   /\ Len(Ev.p) > 0 /\ IWrite(Ev.p, EnvK, EnvE) /\ MatchesI
TraceIWriteAt == IsEvent("IWriteAt") /\ Len(Ev.p) > 0 /\ IWriteAt(Ev.p, Ev.off, EnvK, EnvE) /\ MatchesI
TraceISeek    == IsEvent("ISeek")    /\ ISeek(Ev.off, Ev.w) /\ MatchesI

TraceInit == /\ obase = 0 /\ olimit = 0 /\ ocur = 0 /\ ocalls = <<>> /\ oret = [n |-> 0, err |-> "nil"]
             /\ ibase = 0 /\ ilimit = 0 /\ icur = 0 /\ icalls = <<>> /\ iret = [n |-> 0, err |-> "nil"] /\ l = 1
TraceNext == TraceNew2 \/ TraceWrite \/ TraceWriteAt \/ TraceSeek \/ TraceSize \/ TraceIWrite \/ TraceIWriteAt \/ TraceISeek
TraceSpec == TraceInit /\ [][TraceNext]_tvars
====================================================================================
