SPECIFICATION Spec
CONSTANTS
  BB = 4
  MaxLen = 3
  Widths = {1, 2, 4}
  FD = FALSE
INVARIANTS SplitOK JoinOK FirstDiffOK
CHECK_DEADLOCK FALSE
