--------------------------- MODULE TailBitmapProofBad ---------------------------
(* TLAPS: C15 for word width 64 and UNBOUNDED positions: whatever the history of Set and Compact  *)
(* calls, a TailBitmap neither forgets a set bit nor invents one, never moves its Offset past a   *)
(* position that was not set, and stores every set bit at or above the Offset.                    *)
(* The machine is TailBitmap.tla's with Compact written as "drop k leading words, for a k such    *)
(* that every position of the first k words is set" (RunFull); MC_TailBitmap checks that the      *)
(* number of words TailBitmap!Compacted drops satisfies RunFull (invariant RunFormAgrees).        *)
(* The model checker covers W = 4 exhaustively, Apalache W = 4 / 8 for every state of a bounded   *)
(* universe, this proof the real width for every natural position.                                *)
EXTENDS Integers, TLAPS

W == 64
VARIABLES offset, nw, bits, o0, ever
vars == <<offset, nw, bits, o0, ever>>

RunFull(o, k, b) == \A j \in Nat : (j >= o /\ j < o + W * k) => j \in b

Init == /\ o0 \in Nat /\ offset = o0 /\ nw = 0 /\ bits = {} /\ ever = {}

CompactTo(o, n, b) ==
    \E k \in 0..n :
        /\ RunFull(o, k - 1, b)         \* (false variant: the last dropped word need not be full)
        /\ offset' = o + W * k /\ nw' = n - k
        /\ bits' = {x \in b : x >= o + W * k}

Set(idx) ==
    /\ ever' = ever \cup {idx} /\ o0' = o0
    /\ IF idx < offset
       THEN UNCHANGED <<offset, nw, bits>>
       ELSE LET wi == (idx - offset) \div W
                n1 == IF wi >= nw THEN wi + 1 ELSE nw
                b1 == bits \cup {idx}
            IN IF wi = 0 THEN CompactTo(offset, n1, b1)
               ELSE nw' = n1 /\ bits' = b1 /\ offset' = offset

Compact == CompactTo(offset, nw, bits) /\ UNCHANGED <<o0, ever>>

Next == (\E idx \in Nat : Set(idx)) \/ Compact
Spec == Init /\ [][Next]_vars

Inv ==
    /\ offset \in Nat /\ nw \in Nat /\ o0 \in Nat /\ bits \in SUBSET Nat /\ ever \in SUBSET Nat
    /\ offset >= o0
    /\ \A x \in Nat : x \in bits <=> (x \in ever /\ x >= offset /\ x < offset + W * nw)   \* neither forgets nor invents
    /\ \A x \in Nat : (x \in ever /\ x >= offset) => x < offset + W * nw                   \* every set bit is stored
    /\ \A j \in Nat : (j >= o0 /\ j < offset) => j \in ever                                \* never moved past a 0

\* what Get1 answers, and the property as the user sees it
Get1(j) == IF j < offset THEN 1 ELSE IF j \in bits THEN 1 ELSE 0
Property == \A j \in Nat : j < offset + W * nw => ((Get1(j) = 1) <=> (j < o0 \/ j \in ever))

THEOREM InitInv == Init => Inv
  BY DEF Init, Inv, W

LEMMA CompactToInv ==
  ASSUME NEW o \in Nat, NEW n \in Nat, NEW b \in SUBSET Nat, NEW ev \in SUBSET Nat, NEW z \in Nat,
         o >= z,
         \A x \in Nat : x \in b <=> (x \in ev /\ x >= o /\ x < o + W * n),
         \A x \in Nat : (x \in ev /\ x >= o) => x < o + W * n,
         \A j \in Nat : (j >= z /\ j < o) => j \in ev,
         CompactTo(o, n, b)
  PROVE  /\ offset' \in Nat /\ nw' \in Nat /\ bits' \in SUBSET Nat
         /\ offset' >= z
         /\ \A x \in Nat : x \in bits' <=> (x \in ev /\ x >= offset' /\ x < offset' + W * nw')
         /\ \A x \in Nat : (x \in ev /\ x >= offset') => x < offset' + W * nw'
         /\ \A j \in Nat : (j >= z /\ j < offset') => j \in ev
<1>1. PICK k \in 0..n : /\ RunFull(o, k, b)
                        /\ offset' = o + W * k /\ nw' = n - k
                        /\ bits' = {x \in b : x >= o + W * k}
  BY DEF CompactTo
<1>2. \A j \in Nat : (j >= o /\ j < o + W * k) => j \in ev
  BY <1>1 DEF RunFull, W
<1> QED BY <1>1, <1>2 DEF W

THEOREM StepInv == Inv /\ [Next]_vars => Inv'
<1> SUFFICES ASSUME Inv, [Next]_vars PROVE Inv'
  OBVIOUS
<1>1. ASSUME NEW idx \in Nat, Set(idx) PROVE Inv'
  <2>1. CASE idx < offset
    BY <1>1, <2>1 DEF Inv, Set, W
  <2>2. CASE idx >= offset
    <3> DEFINE wi == (idx - offset) \div W
               n1 == IF wi >= nw THEN wi + 1 ELSE nw
               b1 == bits \cup {idx}
               ev == ever \cup {idx}
    <3>0. wi \in Nat /\ W * wi <= idx - offset /\ idx - offset < W * (wi + 1)
      BY <2>2 DEF Inv, W
    <3>1. /\ n1 \in Nat /\ b1 \in SUBSET Nat /\ ev \in SUBSET Nat
          /\ \A x \in Nat : x \in b1 <=> (x \in ev /\ x >= offset /\ x < offset + W * n1)
          /\ \A x \in Nat : (x \in ev /\ x >= offset) => x < offset + W * n1
          /\ \A j \in Nat : (j >= o0 /\ j < offset) => j \in ev
      BY <2>2, <3>0 DEF Inv, W
    <3>4. /\ ever' = ev /\ o0' = o0
          /\ (wi = 0 => CompactTo(offset, n1, b1))
          /\ (wi # 0 => nw' = n1 /\ bits' = b1 /\ offset' = offset)
      BY <1>1, <2>2 DEF Set, Inv
    <3> HIDE DEF wi, n1, b1, ev
    <3>2. CASE wi = 0
      <4>1. CompactTo(offset, n1, b1)
        BY <3>4, <3>2
      <4>2. /\ offset' \in Nat /\ nw' \in Nat /\ bits' \in SUBSET Nat
            /\ offset' >= o0
            /\ \A x \in Nat : x \in bits' <=> (x \in ev /\ x >= offset' /\ x < offset' + W * nw')
            /\ \A x \in Nat : (x \in ev /\ x >= offset') => x < offset' + W * nw'
            /\ \A j \in Nat : (j >= o0 /\ j < offset') => j \in ev
        <5>1. offset \in Nat /\ o0 \in Nat /\ offset >= o0
          BY DEF Inv
        <5> QED BY <4>1, <3>1, <5>1, CompactToInv
      <4> QED BY <3>4, <4>2, <3>1 DEF Inv
    <3>3. CASE wi # 0
      <4>1. nw' = n1 /\ bits' = b1 /\ offset' = offset /\ ever' = ev /\ o0' = o0
        BY <3>4, <3>3
      <4> QED BY <4>1, <3>1 DEF Inv
    <3> QED BY <3>2, <3>3
  <2> QED BY <2>1, <2>2 DEF Inv
<1>2. ASSUME Compact PROVE Inv'
  <2>1. CompactTo(offset, nw, bits) /\ ever' = ever /\ o0' = o0
    BY <1>2 DEF Compact
  <2>2. /\ offset' \in Nat /\ nw' \in Nat /\ bits' \in SUBSET Nat
        /\ offset' >= o0
        /\ \A x \in Nat : x \in bits' <=> (x \in ever /\ x >= offset' /\ x < offset' + W * nw')
        /\ \A x \in Nat : (x \in ever /\ x >= offset') => x < offset' + W * nw'
        /\ \A j \in Nat : (j >= o0 /\ j < offset') => j \in ever
    BY <2>1, CompactToInv DEF Inv
  <2> QED BY <2>1, <2>2 DEF Inv
<1>3. ASSUME UNCHANGED vars PROVE Inv'
  BY <1>3 DEF Inv, vars
<1> QED BY <1>1, <1>2, <1>3 DEF Next

THEOREM InvImpliesProperty == Inv => Property
  BY DEF Inv, Property, Get1, W

THEOREM Safety == Spec => [](Inv /\ Property)
  BY InitInv, StepInv, InvImpliesProperty, PTL DEF Spec

\* the Offset only moves forward (action property)
THEOREM OffsetMonotone == Inv /\ [Next]_vars => offset' >= offset
<1> SUFFICES ASSUME Inv, [Next]_vars PROVE offset' >= offset
  OBVIOUS
<1>1. ASSUME NEW o \in Nat, NEW n \in Nat, NEW b, CompactTo(o, n, b) PROVE offset' >= o
  BY <1>1 DEF CompactTo, W
<1>2. ASSUME NEW idx \in Nat, Set(idx) PROVE offset' >= offset
  <2>1. CASE idx < offset
    BY <1>2, <2>1 DEF Set, Inv
  <2>2. CASE idx >= offset
    <3> DEFINE wi == (idx - offset) \div W
    <3>0. wi \in Nat
      BY <2>2 DEF Inv, W
    <3>1. CASE wi = 0
      <4>1. CompactTo(offset, IF wi >= nw THEN wi + 1 ELSE nw, bits \cup {idx})
        BY <1>2, <2>2, <3>1 DEF Set, Inv
      <4> QED BY <4>1, <3>0 DEF CompactTo, Inv, W
    <3>2. CASE wi # 0
      BY <1>2, <2>2, <3>2 DEF Set, Inv
    <3> QED BY <3>1, <3>2
  <2> QED BY <2>1, <2>2 DEF Inv
<1>3. ASSUME Compact PROVE offset' >= offset
  BY <1>3, <1>1 DEF Compact, Inv
<1>4. ASSUME UNCHANGED vars PROVE offset' >= offset
  BY <1>4 DEF vars, Inv
<1> QED BY <1>2, <1>3, <1>4 DEF Next
==============================================================================
