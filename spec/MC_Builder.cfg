SPECIFICATION Spec
CONSTANTS
  W = 4
  MaxPos = 6
  MaxSize = 5
  MaxSteps = 3
INVARIANT Inv
PROPERTIES OffsetMonotone NeverClears
CHECK_DEADLOCK FALSE
