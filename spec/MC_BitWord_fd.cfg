SPECIFICATION Spec
CONSTANTS
  BB = 2
  MaxLen = 3
  Widths = {1, 2}
  FD = TRUE
INVARIANTS SplitOK JoinOK FirstDiffOK
CHECK_DEADLOCK FALSE
