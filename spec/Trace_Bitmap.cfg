SPECIFICATION TraceSpec
CONSTANTS
  W = 64
  K = 32
POSTCONDITION TraceAccepted
CHECK_DEADLOCK FALSE
