--------------------------- MODULE Trace_Readers ---------------------------
(* Trace validation for C19.  One history = Init (digests of all shared objects and package     *)
(* tables), then a cold concurrent phase (Start/Finish per goroutine with a result digest; the  *)
(* per-goroutine logs are merged in an order that respects each goroutine's own order - reader  *)
(* actions commute), Snapshot events (must equal the initial digests), sequential phases        *)
(* (SeqCall) in forward and reverse order.  Every execution of a call, concurrent or            *)
(* sequential, must carry the same result digest.  A data-race report of the Go race detector   *)
(* is logged as a RaceReport event, for which the specification has no action: rejected.        *)
EXTENDS TraceIO, FiniteSets

VARIABLES l, mem0, pc, val, tabs
tvars == <<l, mem0, pc, val, tabs>>
Ev == Trace[l]
IsEvent(k) == l <= Len(Trace) /\ Ev.k = k /\ Ev.abn = "" /\ l' = l + 1

Learn(c, r) == /\ (c \in DOMAIN val => val[c] = r)
               /\ val' = IF c \in DOMAIN val THEN val ELSE (c :> r) @@ val

TraceInitEv == /\ IsEvent("Init")
               /\ mem0' = Ev.mem /\ pc' = [g \in {} |-> "idle"] /\ val' = [c \in {} |-> ""] /\ tabs' = <<>>
TraceStart  == /\ IsEvent("Start")
               /\ (Ev.g \in DOMAIN pc => pc[Ev.g] = "idle")
               /\ pc' = (Ev.g :> Ev.call) @@ pc /\ UNCHANGED <<mem0, val, tabs>>
TraceFinish == /\ IsEvent("Finish")
               /\ Ev.g \in DOMAIN pc /\ pc[Ev.g] = Ev.call
               /\ Learn(Ev.call, Ev.r)
               /\ pc' = (Ev.g :> "idle") @@ pc /\ UNCHANGED <<mem0, tabs>>
TraceSeqCall == /\ IsEvent("SeqCall") /\ Learn(Ev.call, Ev.r) /\ UNCHANGED <<mem0, pc, tabs>>
\* no reader wrote a shared input (every snapshot equals the initial one) or a package table after its
\* initialisation: the tables are compared among the snapshots, the first of which is taken after the cold
\* concurrent phase (a table initialised lazily, under proper synchronisation, on first use is still
\* "initialisation"; an unsynchronised one is a data race, reported by the detector)
TraceSnapshot == /\ IsEvent("Snapshot") /\ Ev.mem = mem0
                 /\ (tabs # <<>> => Ev.tabs = tabs) /\ tabs' = Ev.tabs
                 /\ UNCHANGED <<mem0, pc, val>>

TraceInit == l = 1 /\ mem0 = <<>> /\ pc = <<>> /\ val = <<>> /\ tabs = <<>>
TraceNext == TraceInitEv \/ TraceStart \/ TraceFinish \/ TraceSeqCall \/ TraceSnapshot
TraceSpec == TraceInit /\ [][TraceNext]_tvars
=============================================================================
