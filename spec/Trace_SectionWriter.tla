--------------------------- MODULE Trace_SectionWriter ---------------------------
(* Trace validation of iohelper.SectionWriter (C18).  Every recorded call must be a step of   *)
(* the SectionWriter machine: the calls it made on the (scripted, logged) underlying writer,   *)
(* its return values and - through Seek(0, SeekCurrent) probes - its cursor must be those the  *)
(* machine produces.  The behaviour of the underlying writer (bytes accepted, failure) is read *)
(* from the log; everything else is computed by the specification.                             *)
EXTENDS SectionWriter, TraceIO, SWEnv

VARIABLES l
tvars == <<base, limit, cur, calls, ret, l>>

Ev == Trace[l]
IsEvent(k) == l <= Len(Trace) /\ Ev.k = k /\ Ev.abn = "" /\ l' = l + 1

\* what the environment did during this call (SWEnv: a request may be passed on in several adjacent pieces)
EnvK == EnvKOf(Ev.under)
EnvE == EnvEOf(Ev.under)

\* the observable outcome equals the machine's
\* io.ErrShortWrite and the underlying writer's error are fixed by the property; for a rejected Seek it only
\* says "rejecting": any non-nil error is accepted there
ErrMatches(logged, model) == IF model \in {"Whence", "Offset"} THEN logged # "nil" ELSE logged = model
Matches == /\ Ev.rn = ret'.n /\ ErrMatches(Ev.err, ret'.err)
           /\ UnderOK(Ev.under, calls')
           /\ (Ev.cur >= 0 => Ev.cur = cur')          \* the cursor itself, through the verif hook
           /\ Confined' /\ CursorNotBeforeBase'

\* offsets are logged relative to the section start (the machine is translation invariant): base = 0
TraceNew     == IsEvent("New")     /\ Ev.n >= 0 /\ New(0, Ev.n) /\ Ev.under = <<>>
\* "End frame": a section longer than 2^30 bytes (up to MaxInt64), observed near its far end.  The driver logs
\* every position as if the section started Inf = 2^30 bytes before its end; by translation invariance the
\* pretended section New(0, Inf) behaves like the real one as long as no position within 2^29 of the pretended
\* start is touched (the driver ends the history before that).  The real cursor starts far below the pretended
\* start, so the first operation of such a history is always an absolute Seek and the cursor is not compared here.
TraceNewEnd  == IsEvent("NewEnd")  /\ Ev.n = Inf /\ New(0, Inf) /\ Ev.under = <<>>
TraceNewAt   == IsEvent("NewAt")   /\ Ev.room >= 0 /\ NewAtRoom(Ev.room) /\ Ev.under = <<>>
\* (the scripted writer never fails a call that offers no bytes, see the driver)
TraceWrite   == IsEvent("Write")   /\ Write(Ev.p, EnvK, EnvE) /\ Matches
TraceWriteAt == IsEvent("WriteAt") /\ WriteAt(Ev.p, Ev.off, EnvK, EnvE) /\ Matches
\* buffers of 2^30 bytes and more, given by their length (all bytes zero; the log holds lengths only)
TraceWriteL   == IsEvent("WriteL")   /\ Ev.n >= 0 /\ WriteL(Ev.n, EnvK, EnvE) /\ Matches
TraceWriteAtL == IsEvent("WriteAtL") /\ Ev.n >= 0 /\ WriteAtL(Ev.n, Ev.off, EnvK, EnvE) /\ Matches
TraceSeek    == IsEvent("Seek")    /\ Seek(Ev.off, Ev.w) /\ Matches
TraceSize    == IsEvent("Size")    /\ Size /\ Matches

TraceInit == base = 0 /\ limit = 0 /\ cur = 0 /\ calls = <<>> /\ ret = [n |-> 0, err |-> "nil"] /\ l = 1
TraceNext == TraceNew \/ TraceNewEnd \/ TraceNewAt \/ TraceWrite \/ TraceWriteAt \/ TraceWriteL \/ TraceWriteAtL \/ TraceSeek \/ TraceSize
TraceSpec == TraceInit /\ [][TraceNext]_tvars
===================================================================================
