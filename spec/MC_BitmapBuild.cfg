SPECIFICATION Spec
CONSTANTS
  W = 4
  K = 2
  MaxPos = 9
  Widths = {1, 2, 4}
INVARIANTS OfOK RoundTrips GetOK SplitOK
CHECK_DEADLOCK FALSE
