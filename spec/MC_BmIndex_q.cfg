SPECIFICATION Spec
CONSTANTS
  MaxH = 6
  MaxH5 = 12
INVARIANTS IndexAgree IdxBijection I2POK
CHECK_DEADLOCK FALSE
