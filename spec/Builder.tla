--------------------------- MODULE Builder ---------------------------
(* bitmap.Builder (bitmap/builder.go): incremental bitmap construction.                     *)
(* State: offset = b.Offset, nw = len(b.Words), ones = positions of the 1-bits of b.Words.   *)
EXTENDS Integers, Sequences, FiniteSets

CONSTANT W

VARIABLES offset, nw, ones
bvars == <<offset, nw, ones>>

BCeilDiv(a, b) == (a + b - 1) \div b
BMax(a, b) == IF a > b THEN a ELSE b

\* NewBuilder(n): n only pre-sizes the capacity
New(n) == offset' = 0 /\ nw' = 0 /\ ones' = {}

\* Extend(L, size): L are positions relative to Offset; the segment is `size` bits long, but a
\* position at or beyond size still gets room
Extend(L, size) ==
    LET last == IF Len(L) = 0 THEN -1 ELSE L[Len(L)]
        end  == IF last >= size THEN offset + last + 1 ELSE offset + size
    IN /\ nw' = BMax(nw, BCeilDiv(end, W))
       /\ ones' = ones \cup {offset + L[i] : i \in DOMAIN L}
       /\ offset' = offset + size

\* Set(pos, val): OR val's lowest bit in at pos, move Offset past it
Set(pos, val) ==
    /\ nw' = BMax(nw, pos \div W + 1)
    /\ ones' = IF val % 2 = 1 THEN ones \cup {pos} ELSE ones
    /\ offset' = BMax(offset, pos + 1)

EnoughWords == \A x \in ones : x >= 0 /\ x < W * nw
=======================================================================
