--------------------------- MODULE SectionWriterInd ---------------------------
(* C18 as an inductive invariant over UNBOUNDED integers, for Apalache (symbolic, SMT integers):   *)
(* the SectionWriter machine of SectionWriter.tla with byte strings abstracted to their lengths     *)
(* (the property is about where bytes go and how many are accounted for, not about their values;   *)
(* the values are compared by the trace specification).  From ANY state satisfying IndInv - any     *)
(* base, any limit >= base, any cursor >= base, no bound on sizes or offsets - every Write /        *)
(* WriteAt / Seek / Size / New step leads to a state satisfying it, and IndInv implies the          *)
(* property: every underlying call lies inside [base, limit), a successful Write advances the       *)
(* cursor by exactly what it returns, nothing else moves it except an accepted Seek.                *)
(* TLC checks the same machine exhaustively for small constants (MC_SectionWriter); this module     *)
(* removes the bound.  It has no constants: --cinit is a dummy.                                     *)
EXTENDS Integers

CONSTANT
    \* @type: Int;
    Dummy

VARIABLES
    \* @type: Int;
    base,
    \* @type: Int;
    limit,
    \* @type: Int;
    cur,
    \* the call the last operation made on the underlying writer (at most one): offset, bytes offered, bytes accepted
    \* @type: Bool;
    called,
    \* @type: Int;
    cOff,
    \* @type: Int;
    cLen,
    \* @type: Int;
    cAcc,
    \* what the last operation returned: count (or position for Seek/Size) and error class
    \* @type: Int;
    retN,
    \* @type: Str;
    retErr,
    \* the cursor before the last operation and which operation it was (history variables for the action properties)
    \* @type: Int;
    prevCur,
    \* @type: Str;
    lastOp

CInit == Dummy = 0

Min2(a, b) == IF a < b THEN a ELSE b
WriteErr(plen, m, e) == IF e THEN "inj" ELSE IF m < plen THEN "ShortWrite" ELSE "nil"

\* @type: (Int, Int) => Bool;
New(b, n) ==
    /\ n >= 0                                   \* NewSectionWriter's n is a length; AtToWriter passes MaxInt64 - off
    /\ base' = b /\ cur' = b /\ limit' = b + n
    /\ called' = FALSE /\ cOff' = 0 /\ cLen' = 0 /\ cAcc' = 0
    /\ retN' = 0 /\ retErr' = "nil" /\ prevCur' = b /\ lastOp' = "New"

\* @type: (Int, Int, Bool) => Bool;
Write(plen, k, e) ==
    /\ plen >= 0 /\ prevCur' = cur /\ lastOp' = "Write"
    /\ IF cur >= limit
       THEN /\ retN' = 0 /\ retErr' = "ShortWrite" /\ called' = FALSE /\ cOff' = 0 /\ cLen' = 0 /\ cAcc' = 0
            /\ UNCHANGED <<base, limit, cur>>
       ELSE LET m == Min2(plen, limit - cur) IN
            /\ k >= 0 /\ k <= m /\ (~e => k = m)
            /\ called' = TRUE /\ cOff' = cur /\ cLen' = m /\ cAcc' = k
            /\ cur' = cur + k
            /\ retN' = k /\ retErr' = WriteErr(plen, m, e)
            /\ UNCHANGED <<base, limit>>

\* @type: (Int, Int, Int, Bool) => Bool;
WriteAt(plen, off, k, e) ==
    /\ plen >= 0 /\ prevCur' = cur /\ lastOp' = "WriteAt"
    /\ IF off < 0 \/ off >= limit - base
       THEN /\ retN' = 0 /\ retErr' = "ShortWrite" /\ called' = FALSE /\ cOff' = 0 /\ cLen' = 0 /\ cAcc' = 0
            /\ UNCHANGED <<base, limit, cur>>
       ELSE LET abs == off + base
                m == Min2(plen, limit - abs) IN
            /\ k >= 0 /\ k <= m /\ (~e => k = m)
            /\ called' = TRUE /\ cOff' = abs /\ cLen' = m /\ cAcc' = k
            /\ retN' = k /\ retErr' = WriteErr(plen, m, e)
            /\ UNCHANGED <<base, limit, cur>>

\* @type: (Int, Int) => Bool;
Seek(off, whence) ==
    /\ prevCur' = cur /\ lastOp' = "Seek"
    /\ called' = FALSE /\ cOff' = 0 /\ cLen' = 0 /\ cAcc' = 0
    /\ IF whence \notin {0, 1, 2}
       THEN /\ retN' = 0 /\ retErr' = "Whence" /\ UNCHANGED <<base, limit, cur>>
       ELSE LET target == off + (IF whence = 0 THEN base ELSE IF whence = 1 THEN cur ELSE limit) IN
            IF target < base
            THEN /\ retN' = 0 /\ retErr' = "Offset" /\ UNCHANGED <<base, limit, cur>>
            ELSE /\ cur' = target /\ retN' = target - base /\ retErr' = "nil" /\ UNCHANGED <<base, limit>>

Size ==
    /\ prevCur' = cur /\ lastOp' = "Size"
    /\ called' = FALSE /\ cOff' = 0 /\ cLen' = 0 /\ cAcc' = 0
    /\ retN' = limit - base /\ retErr' = "nil" /\ UNCHANGED <<base, limit, cur>>

Init == \E b \in Int, n \in Int : /\ n >= 0
                                  /\ base = b /\ cur = b /\ limit = b + n
                                  /\ called = FALSE /\ cOff = 0 /\ cLen = 0 /\ cAcc = 0
                                  /\ retN = 0 /\ retErr = "nil" /\ prevCur = b /\ lastOp = "New"

Next == \/ \E b \in Int, n \in Int : New(b, n)
        \/ \E plen \in Int, k \in Int, e \in BOOLEAN : Write(plen, k, e)
        \/ \E plen \in Int, off \in Int, k \in Int, e \in BOOLEAN : WriteAt(plen, off, k, e)
        \/ \E off \in Int, whence \in Int : Seek(off, whence)
        \/ Size

\* ---- the inductive invariant
IndInv ==
    /\ base <= limit                               \* a section has a non-negative length
    /\ cur >= base /\ prevCur >= base              \* the cursor is never before the section start
    /\ retErr \in {"nil", "ShortWrite", "inj", "Whence", "Offset"}
    /\ lastOp \in {"New", "Write", "WriteAt", "Seek", "Size"}
    /\ (called => /\ cOff >= base /\ cOff < limit /\ cLen >= 0 /\ cOff + cLen <= limit    \* confined
                  /\ cAcc >= 0 /\ cAcc <= cLen /\ retN = cAcc)                            \* accounted
    /\ (~called => cLen = 0 /\ cAcc = 0)
    /\ retN >= 0
    /\ (lastOp = "Write" => cur = prevCur + retN)                      \* Write advances by what it returns
    /\ (lastOp = "Write" /\ called => cOff = prevCur)                  \* ... and writes at the cursor
    /\ (lastOp \in {"WriteAt", "Size"} => cur = prevCur)               \* these never move the cursor
    /\ (lastOp = "Seek" /\ retErr # "nil" => cur = prevCur /\ retN = 0)
    /\ (lastOp = "Seek" /\ retErr = "nil" => retN = cur - base)
    /\ (lastOp \in {"Write", "WriteAt"} /\ retErr = "nil" => called \/ retN = 0)
    /\ (lastOp \in {"Write", "WriteAt"} /\ ~called => retErr = "ShortWrite" /\ retN = 0)
IndInit == /\ base \in Int /\ limit \in Int /\ cur \in Int /\ called \in BOOLEAN
           /\ cOff \in Int /\ cLen \in Int /\ cAcc \in Int /\ retN \in Int /\ prevCur \in Int
           /\ retErr \in {"nil", "ShortWrite", "inj", "Whence", "Offset"}
           /\ lastOp \in {"New", "Write", "WriteAt", "Seek", "Size"}
           /\ IndInv

\* ---- the property (C18), implied by the invariant
Confined == called => cOff >= base /\ cOff + cLen <= limit /\ cOff < limit
Accounted == /\ (called => retN = cAcc /\ cAcc <= cLen)
             /\ (lastOp = "Write" => cur - prevCur = retN)
             /\ (lastOp = "WriteAt" => cur = prevCur)
CursorNotBeforeBase == cur >= base
Property == Confined /\ Accounted /\ CursorNotBeforeBase

\* ---- sanity: these MUST be refuted (the step is not vacuous)
BadNeverWrites == ~called
BadCursorStays == cur = base
BadNeverShort  == retErr # "ShortWrite"
================================================================================
