--------------------------- MODULE MC_SectionWriter2 ---------------------------
(* Scaled exhaustive check of the composition of two SectionWriters: every interleaving of      *)
(* operations on the outer and on the inner section, every behaviour of the innermost writer.   *)
EXTENDS SectionWriter2, TLC

CONSTANTS IBases, ISizes, OBases, OSizes, MaxLen, MaxDepth
Offsets == {-1, 0, 1, 2, 4}
Whences == {0, 1, 2, 3}
Bufs == {[i \in 1..n |-> i] : n \in 1..MaxLen}

VARIABLES depth, op
vars == <<vars2, depth, op>>

Init == /\ \E ib \in IBases, inn \in ISizes, ob \in OBases, on \in OSizes :
              /\ ibase = ib /\ icur = ib /\ ilimit = ib + inn
              /\ obase = ob /\ ocur = ob /\ olimit = ob + on
        /\ icalls = <<>> /\ ocalls = <<>> /\ iret = [n |-> 0, err |-> "nil"] /\ oret = [n |-> 0, err |-> "nil"]
        /\ depth = 0 /\ op = [k |-> "New", who |-> "o"]

Next == /\ depth < MaxDepth /\ depth' = depth + 1
        /\ \/ \E p \in Bufs, k \in 0..MaxLen, e \in BOOLEAN : OWrite(p, k, e) /\ op' = [k |-> "Write", who |-> "o", p |-> p]
           \/ \E p \in Bufs, off \in Offsets, k \in 0..MaxLen, e \in BOOLEAN : OWriteAt(p, off, k, e) /\ op' = [k |-> "WriteAt", who |-> "o", p |-> p, off |-> off]
           \/ \E off \in Offsets, w \in Whences : OSeek(off, w) /\ op' = [k |-> "Seek", who |-> "o"]
           \/ OSize /\ op' = [k |-> "Size", who |-> "o"]
           \/ \E p \in Bufs, k \in 0..MaxLen, e \in BOOLEAN : IWrite(p, k, e) /\ op' = [k |-> "Write", who |-> "i", p |-> p]
           \/ \E off \in Offsets, w \in Whences : ISeek(off, w) /\ op' = [k |-> "Seek", who |-> "i"]

Spec == Init /\ [][Next]_vars

Outer == op.who = "o" /\ op.k \in {"Write", "WriteAt"}
\* the count the outer section returns is what the innermost writer accepted
CountIsAccepted2 == Outer => oret.n = (IF icalls = <<>> THEN 0 ELSE icalls[1].k)
\* contents: a prefix of the caller's buffer
ContentIsPrefix2 == Outer => \A i \in DOMAIN icalls : icalls[i].p = SubSeq(op.p, 1, Len(icalls[i].p))
\* an error is reported exactly when fewer bytes were accepted than offered by the caller; it is the innermost
\* writer's error when that failed, io.ErrShortWrite otherwise
ErrorExactly2 == Outer =>
    LET failed == icalls # <<>> /\ icalls[1].e IN
    /\ failed => OErr = "inj"
    /\ ~failed => OErr = (IF oret.n < Len(op.p) THEN "ShortWrite" ELSE "nil")
\* each section's own confinement, and the composition's
BothConfined == Confined2 /\ I!Confined /\ O!Confined
OuterWriteMovesOuterCursor == [][op'.who = "o" /\ op'.k = "Write" => ocur' = ocur + oret'.n]_vars
OuterNeverMovesInnerCursor == [][op'.who = "o" => icur' = icur]_vars
InnerNeverMovesOuterCursor == [][op'.who = "i" => ocur' = ocur]_vars
=================================================================================
