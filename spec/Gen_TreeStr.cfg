SPECIFICATION Spec
CONSTANTS
  D = 2
INVARIANTS Sane Emit
CHECK_DEADLOCK FALSE
