------------------------- MODULE SectionWriterProofBad -------------------------
(* TLAPS: for EVERY section (any integers base, n >= 0), every request length, every offset,   *)
(* whence and every behaviour of the underlying writer, what reaches the underlying writer lies *)
(* inside [base, limit) and the cursor never goes before the section start.  The proof is over  *)
(* the length form of the steps (WriteL / WriteAtL), which share the outcome functions with     *)
(* Write / WriteAt: the contents of a buffer play no part in where its bytes go.                *)
EXTENDS SectionWriter, TLAPS

InitP == /\ base \in Int /\ limit \in Int /\ base <= limit /\ cur = base
         /\ calls = <<>> /\ ret = [n |-> 0, err |-> "nil"]
NextP == \/ \E n \in Nat, k \in Nat, e \in BOOLEAN : WriteL(n, k, e)
         \/ \E n \in Nat, off \in Int, k \in Nat, e \in BOOLEAN : WriteAtL(n, off, k, e)
         \/ \E off \in Int, w \in Int : Seek(off, w)
         \/ Size
SpecP == InitP /\ [][NextP]_swvars

ConfinedL == \A i \in DOMAIN calls :
                /\ calls[i].off >= base /\ calls[i].off < limit
                /\ calls[i].off + calls[i].n < limit
InvP == /\ base \in Int /\ limit \in Int /\ cur \in Int /\ Inf \in Int
        /\ base <= limit /\ cur >= base
        /\ (calls = <<>> \/ \E c \in [off : Int, p : {<<>>}, n : Nat, k : Nat, e : BOOLEAN] : calls = <<c>>)
        /\ ConfinedL

ASSUME InfInt == Inf \in Int

THEOREM InitInv == InitP => InvP
  BY InfInt DEF InitP, InvP, ConfinedL

THEOREM StepInv == InvP /\ [NextP]_swvars => InvP'
<1> SUFFICES ASSUME InvP, [NextP]_swvars PROVE InvP'
  OBVIOUS
<1>1. ASSUME NEW n \in Nat, NEW k \in Nat, NEW e \in BOOLEAN, WriteL(n, k, e) PROVE InvP'
  BY <1>1, InfInt DEF InvP, ConfinedL, WriteL, SWStepL, WriteOutcome, EnvOK, Min2, WriteErrL
<1>2. ASSUME NEW n \in Nat, NEW off \in Int, NEW k \in Nat, NEW e \in BOOLEAN, WriteAtL(n, off, k, e) PROVE InvP'
  BY <1>2, InfInt DEF InvP, ConfinedL, WriteAtL, SWStepL, WriteAtOutcome, EnvOK, Min2, WriteErrL
<1>3. ASSUME NEW off \in Int, NEW w \in Int, Seek(off, w) PROVE InvP'
  BY <1>3, InfInt DEF InvP, ConfinedL, Seek
<1>4. ASSUME Size PROVE InvP'
  BY <1>4, InfInt DEF InvP, ConfinedL, Size
<1>5. ASSUME UNCHANGED swvars PROVE InvP'
  BY <1>5 DEF InvP, ConfinedL, swvars
<1> QED BY <1>1, <1>2, <1>3, <1>4, <1>5 DEF NextP

THEOREM Safety == SpecP => []InvP
  BY InitInv, StepInv, PTL DEF SpecP

\* ---- accounting, as facts about single steps (for every state satisfying the invariant)
\* Write: the count returned is what the underlying writer accepted, the cursor moves by exactly that, never more
\* than was asked; ErrShortWrite exactly when the request was cut short by, or starts at or beyond, the section end
\* and the underlying writer did not fail; the underlying writer's failure is reported
THEOREM WriteAccounting ==
  ASSUME InvP, NEW n \in Nat, NEW k \in Nat, NEW e \in BOOLEAN, WriteL(n, k, e)
  PROVE  /\ cur' = cur + ret'.n /\ ret'.n <= n /\ ret'.n >= 0
         /\ (calls' = <<>>) <=> (cur >= limit)
         /\ calls' # <<>> => ret'.n = calls'[1].k /\ calls'[1].off = cur /\ calls'[1].n <= n
         /\ (calls' # <<>> /\ calls'[1].e) => ret'.err = "inj"
         /\ ~(calls' # <<>> /\ calls'[1].e) => ((ret'.err = "ShortWrite") <=> (calls' = <<>> \/ calls'[1].n < n))
  BY InfInt DEF InvP, ConfinedL, WriteL, SWStepL, WriteOutcome, EnvOK, Min2, WriteErrL
\* WriteAt: never moves the cursor; the bytes go to base + off
THEOREM WriteAtAccounting ==
  ASSUME InvP, NEW n \in Nat, NEW off \in Int, NEW k \in Nat, NEW e \in BOOLEAN, WriteAtL(n, off, k, e)
  PROVE  /\ cur' = cur /\ ret'.n <= n /\ ret'.n >= 0
         /\ (calls' = <<>>) <=> (off < 0 \/ off >= limit - base)
         /\ calls' # <<>> => ret'.n = calls'[1].k /\ calls'[1].off = base + off
         /\ ~(calls' # <<>> /\ calls'[1].e) => ((ret'.err = "ShortWrite") <=> (calls' = <<>> \/ calls'[1].n < n))
  BY InfInt DEF InvP, ConfinedL, WriteAtL, SWStepL, WriteAtOutcome, EnvOK, Min2, WriteErrL
\* Seek: either the cursor is where the caller asked (relative to the section) or nothing changed and an error is reported
THEOREM SeekSemanticsP ==
  ASSUME InvP, NEW off \in Int, NEW w \in Int, Seek(off, w)
  PROVE  \/ ret'.err = "nil" /\ cur' - base = ret'.n /\ cur' >= base
         \/ ret'.err \in {"Whence", "Offset"} /\ cur' = cur /\ ret'.n = 0
  BY InfInt DEF InvP, Seek
==============================================================================
