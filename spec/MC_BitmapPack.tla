--------------------------- MODULE MC_BitmapPack ---------------------------
(* C14, scaled exhaustive: Join / Getw (shift-and-mask forms of bitmap/join.go, get.go) and     *)
(* Slice (bit loop of bitmap/slice.go) equal the definitions Bitmap!JoinD / LowLimbs / SliceD   *)
(* for every width, every list of values carrying one bit above the width, every range.         *)
EXTENDS Bitmap, TLC

CONSTANTS Widths, MaxVals, MaxWords
VARIABLES mode, w, vals, nw, S, from, to
vars == <<mode, w, vals, nw, S, from, to>>

Seqs(D, n) == UNION {[1..k -> D] : k \in 0..n}
\* every value with one bit above the width for the small widths, boundary values for the widest
ValsOf(x) == IF x <= 4 THEN 0..(2 ^ (x + 1) - 1)
             ELSE {0, 1, 2 ^ (x - 1), 2 ^ x - 1, 2 ^ x, 2 ^ x + 1, 2 ^ (x + 1) - 1, 170, 341}
Init == \/ /\ mode = "join" /\ w \in Widths
           /\ vals \in Seqs(ValsOf(w), MaxVals)
           /\ nw = 0 /\ S = {} /\ from = 0 /\ to = 0
        \/ /\ mode = "slice" /\ w = 1 /\ vals = <<>>
           /\ \E n \in 0..MaxWords : nw = n /\ S \in SUBSET (0..(W * n - 1))
                                     /\ from \in 0..(W * n) /\ to \in 0..(W * n) /\ from <= to
Next == UNCHANGED vars
Spec == Init /\ [][Next]_vars

AsLimbs(v) == <<0, 0, 0, v>>
BitOfInt(v, b) == (v \div (2 ^ b)) % 2

\* Join: r[j / W] |= (e & Mask[w]) << (j % W) with j = i*w ; words as numbers
JoinWordsAlg ==
    LET l == w * Len(vals)
        nwords == ((l + W - 1) \div W)
        RECURSIVE Acc(_, _)
        Acc(k, r) == IF k > Len(vals) THEN r
                     ELSE LET j == (k - 1) * w
                              e == (vals[k] % (2 ^ w)) * (2 ^ (j % W))
                          IN Acc(k + 1, [r EXCEPT ![j \div W + 1] = @ + e])    \* |= on disjoint bits is +
    IN Acc(1, [x \in 1..nwords |-> 0])
OnesOfWords(ws) == {W * (k - 1) + b : k \in DOMAIN ws, b \in 0..(W - 1)} \cap
                   {p \in 0..(W * Len(ws) - 1) : BitOfInt(ws[p \div W + 1], p % W) = 1}
\* Getw: (bm[i*w / W] >> (i*w % W)) & Mask[w]
GetwAlg(ws, k) == LET j == (k - 1) * w IN (ws[j \div W + 1] \div (2 ^ (j % W))) % (2 ^ w)

JoinOK == mode = "join" =>
    LET ws == JoinWordsAlg  d == JoinD([k \in DOMAIN vals |-> AsLimbs(vals[k])], w) IN
    /\ Len(ws) = d.nw /\ OnesOfWords(ws) = d.ones
    /\ \A k \in DOMAIN vals : /\ GetwAlg(ws, k) = vals[k] % (2 ^ w)
                              /\ AsLimbs(GetwAlg(ws, k)) = LowLimbs(AsLimbs(vals[k]), w)

\* Slice: for i in from..to-1: if bit i is set, set bit i-from of the result; len = ((to-from)+W-1) / W
SliceAlg == [nw |-> ((to - from) + W - 1) \div W, ones |-> {p - from : p \in {q \in from..(to - 1) : q \in S}}]
SliceOK == mode = "slice" => SliceAlg = SliceD(S, from, to) /\ WellFormed(SliceAlg.nw, SliceAlg.ones)
==============================================================================
