--------------------------- MODULE MC_BitmapRank ---------------------------
(* C01, scaled exhaustive: the algorithms of bitmap/rank.go (index construction as a running   *)
(* sum with the parity-dependent last entry of IndexRank128; Rank64 = index + popcount of the   *)
(* masked word; Rank128 = nearest 2W-index, minus the word's own popcount in a right-hand word) *)
(* equal the definitions Bitmap!Rank/BitAt for EVERY bitmap of up to MaxWords W-bit words and   *)
(* every position; and the inductive vector characterisation used by trace validation           *)
(* coincides with the definition.                                                               *)
EXTENDS Bitmap, TLC

CONSTANT MaxWords
VARIABLES nw, S, i
vars == <<nw, S, i>>

Init == \E n \in 0..MaxWords :
          /\ nw = n /\ S \in SUBSET (0..(W * n - 1))
          /\ i \in (IF n = 0 THEN {0} ELSE 0..(W * n - 1))
Next == UNCHANGED vars
Spec == Init /\ [][Next]_vars

\* ---- algorithm layer: words as sets of in-word bit offsets
Word(k)      == {b \in 0..(W - 1) : W * k + b \in S}
Pop(w)       == Cardinality(w)
MaskLow(w, j) == {b \in w : b < j}                     \* w & Mask[j]
RECURSIVE RunSum(_)
RunSum(k) == IF k = 0 THEN 0 ELSE RunSum(k - 1) + Pop(Word(k - 1))   \* ones in words 0..k-1
IdxRank64Alg(trailing) == [k \in 1..(nw + (IF trailing THEN 1 ELSE 0)) |-> RunSum(k - 1)]
\* for i = 0, 2, 4 ... < nw: append n; n += pop(w[i]) (+ pop(w[i+1]) if present); append n once more iff nw is even
IdxRank128Alg ==
    LET pairs == (nw + 1) \div 2
        body == [k \in 1..pairs |-> RunSum(2 * (k - 1))]
    IN IF nw % 2 = 0 THEN Append(body, RunSum(nw)) ELSE body
Rank64Alg(idx) ==
    LET wi == i \div W  j == i % W  w == Word(wi)
    IN <<idx[wi + 1] + Pop(MaskLow(w, j)), IF j \in w THEN 1 ELSE 0>>
Rank128Alg(idx) ==
    LET wi == i \div W  j == i % W  w == Word(wi)  atRight == wi % 2
        n == idx[(i + W) \div (2 * W) + 1]
    IN <<n - atRight * Pop(w) + Pop(MaskLow(w, j)), IF j \in w THEN 1 ELSE 0>>

\* ---- A = D
Want == <<Rank(S, i), BitAt(S, i)>>
IndexesOK ==
    /\ IdxRank64Alg(FALSE) = IdxRank64D(S, nw, FALSE)
    /\ IdxRank64Alg(TRUE)  = IdxRank64D(S, nw, TRUE)
    /\ IdxRank128Alg = IdxRank128D(S, nw)
RankOK == nw > 0 =>
    /\ Rank64Alg(IdxRank64Alg(FALSE)) = Want
    /\ Rank64Alg(IdxRank64Alg(TRUE)) = Want
    /\ Rank128Alg(IdxRank128Alg) = Want
\* the vector form: the definition's vector satisfies it, and changing one entry breaks it
DefVec == [p \in 1..(W * nw) |-> <<Rank(S, p - 1), BitAt(S, p - 1)>>]
VecOK == i = 0 =>
    /\ RankVecOK(S, W * nw, DefVec)
    /\ \A p \in 1..(W * nw) :
          /\ ~RankVecOK(S, W * nw, [DefVec EXCEPT ![p] = <<@[1] + 1, @[2]>>])
          /\ ~RankVecOK(S, W * nw, [DefVec EXCEPT ![p] = <<@[1], 1 - @[2]>>])
\* rank/select duality on the definitions
RankOfOne == i \in S => Rank(S, i + 1) = Rank(S, i) + 1
==============================================================================
