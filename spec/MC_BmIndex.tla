--------------------------- MODULE MC_BmIndex ---------------------------
(* C03 and C05, scaled exhaustive.                                                             *)
(* C03: for EVERY level mask T of height <= MaxH and every node: the recursive pre-order count  *)
(* among stored nodes (Idx1), the closed level sum used by trace validation (Idx2) and the      *)
(* code's three cases (full tree: 2p + l - pop(p); leaf-only: p; general: shiftMulti + pop of   *)
(* the stored levels above, with shiftMulti as the trailing-zero loop, in both argument orders) *)
(* agree; and the index restricted to stored nodes is the identity along the stored            *)
(* subsequence of the pre-order: a strictly order preserving bijection onto 0..T-1.             *)
(* C05: for every index of every full tree of height <= MaxH5: the register-level algorithm of *)
(* IndexToPath (common-prefix shortcut for h > 4, bit-by-bit descent, 4-level lookup table)     *)
(* equals the pre-order descent PathOfIndex, which inverts Idx2.                                *)
EXTENDS Bmtree, Bitwise, TLC

CONSTANTS MaxH, MaxH5
VARIABLES mode, t, nd, hh, x
vars == <<mode, t, nd, hh, x>>

Nodes(h) == {<<l, v>> : l \in 0..h, v \in 0..(P2(h) - 1)} \cap {n \in (0..h) \X (0..(P2(h) - 1)) : n[2] < P2(n[1])}
Init == \/ /\ mode = "p2i" /\ t \in 1..(P2(MaxH + 1) - 1) /\ nd \in Nodes(HeightOf(t)) /\ hh = 0 /\ x = 0
        \/ /\ mode = "i2p" /\ hh \in 0..MaxH5 /\ x \in 0..(P2(hh + 1) - 2) /\ t = 1 /\ nd = <<0, 0>>
Next == UNCHANGED vars
Spec == Init /\ [][Next]_vars

\* ---- the pre-order sequence of a height-h tree, by its definition
RECURSIVE PreFrom(_, _, _)
PreFrom(l, v, h) == <<<<l, v>>>> \o (IF l < h THEN PreFrom(l + 1, 2 * v, h) \o PreFrom(l + 1, 2 * v + 1, h) ELSE <<>>)
PreAll == [h \in 0..MaxH |-> PreFrom(0, 0, h)]
PosIn(s, e) == CHOOSE k \in DOMAIN s : s[k] = e
Stored(tt, n) == BitOf(tt, n[1]) = 1
\* number of stored nodes strictly before n in pre-order
Idx1(tt, n) == LET s == PreAll[HeightOf(tt)]  k == PosIn(s, n)
               IN Cardinality({j \in 1..(k - 1) : Stored(tt, s[j])})

\* ---- the code (bmtree/index.go, partial_tree.go)
RECURSIVE TZ(_)
TZ(b) == IF b % 2 = 1 THEN 0 ELSE 1 + TZ(b \div 2)
RECURSIVE SMLoop(_, _, _, _)
SMLoop(a, b, shift, rst) ==          \* b is odd here
    LET r2 == rst + a \div P2(shift)  bm1 == b - 1
    IN IF bm1 = 0 THEN r2 ELSE LET n == TZ(bm1) IN SMLoop(a, b \div P2(n), shift - n, r2)
ShiftMulti(a, b, shift) == IF b = 0 THEN 0 ELSE LET n == TZ(b) IN SMLoop(a, b \div P2(n), shift - n, 0)
Alg(tt, n, loose) ==
    LET h == HeightOf(tt)  l == n[1]  p == n[2] * P2(h - l)
    IN IF tt = P2(h + 1) - 1 THEN 2 * p + l - PopCount(p)
       ELSE IF tt = P2(h) THEN p
       ELSE (IF loose THEN ShiftMulti(p, tt, h) ELSE ShiftMulti(tt, p, h)) + PopCount(tt % P2(l))

IndexAgree == mode = "p2i" =>
    /\ Idx1(t, nd) = Idx2(t, nd[1], nd[2])
    /\ Alg(t, nd, TRUE) = Idx1(t, nd)                      \* PathToIndexLoose on every node
    /\ (Stored(t, nd) => Alg(t, nd, FALSE) = Idx1(t, nd))   \* PathToIndex on stored levels
\* checked once per mask (at the root): bijection onto 0..T-1, order preserving
IdxBijection == (mode = "p2i" /\ nd = <<0, 0>>) =>
    LET st == SelectSeq(PreAll[HeightOf(t)], LAMBDA n : Stored(t, n))
    IN /\ Len(st) = t
       /\ \A j \in DOMAIN st : Idx2(t, st[j][1], st[j][2]) = j - 1

\* ---- IndexToPath: two 32-bit halves <<hi, lo>> of the path*2 register
Tbl == [r \in {0, 1, 2, 4, 8} |->
         CASE r = 0 -> << <<0, 0>> >>
           [] r = 1 -> << <<0, 0>> >>
           [] r = 2 -> << <<0, 0>>, <<0, 1>>, <<1, 1>> >>
           [] r = 4 -> << <<0, 0>>, <<0, 2>>, <<0, 3>>, <<1, 3>>, <<2, 2>>, <<2, 3>>, <<3, 3>> >>
           [] r = 8 -> << <<0, 0>>, <<0, 4>>, <<0, 6>>, <<0, 7>>, <<1, 7>>, <<2, 6>>, <<2, 7>>, <<3, 7>>,
                          <<4, 4>>, <<4, 6>>, <<4, 7>>, <<5, 7>>, <<6, 6>>, <<6, 7>>, <<7, 7>> >>]
RECURSIVE BitLen(_)
BitLen(v) == IF v = 0 THEN 0 ELSE 1 + BitLen(v \div 2)
RECURSIVE Loop(_, _, _, _)
Loop(M, idx, p2hi, p2lo) ==          \* M: the mask bit (same in both halves)
    IF M % 16 = 0 /\ idx > 0
    THEN LET hb == idx & M
         IN Loop(M \div 2, IF hb = 0 THEN idx - 1 ELSE idx - hb, p2hi | hb, p2lo | M)
    ELSE LET e == Tbl[M % 16][idx + 1] IN << (p2hi \div 2) | e[1], (p2lo \div 2) | e[2] >>
I2PAlg(h, index) ==
    IF h > 4
    THEN LET i1 == index - h
             diffbits == IF i1 < 0 THEN 32 ELSE BitLen(i1 ^^ index)
             fixed == h + 1 - diffbits
         IN IF fixed > 0
            THEN LET m == P2(h + 1) - P2(diffbits)
                 IN Loop(P2(h) \div P2(fixed), (index - (index & m)) - fixed + PopCount(index & m), index & m, m)
            ELSE Loop(P2(h), index, 0, 0)
    ELSE Loop(P2(h), index, 0, 0)

I2POK == mode = "i2p" =>
    LET n == PathOfIndex(hh, x) IN
    /\ n[1] \in 0..hh /\ n[2] < P2(n[1])                               \* well-formed
    /\ Idx2(P2(hh + 1) - 1, n[1], n[2]) = x                            \* inverts PathToIndex on the full tree
    /\ I2PAlg(hh, x) = PathHL(hh, n[1], n[2])                          \* the code computes it
===========================================================================
