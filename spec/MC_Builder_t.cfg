SPECIFICATION Spec
CONSTANTS
  W = 4
  MaxPos = 6
  MaxSize = 5
  MaxSteps = 4
INVARIANT Inv
PROPERTIES OffsetMonotone NeverClears
CHECK_DEADLOCK FALSE
