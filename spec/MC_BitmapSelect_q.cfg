SPECIFICATION Spec
CONSTANTS
  W = 4
  K = 2
  B = 1
  MaxWords = 3
INVARIANTS SelectOK SelectR64OK InverseLaw IndexShape DenseFormOK
CHECK_DEADLOCK FALSE
