SPECIFICATION Spec
CONSTANTS
  Depth = 9
CHECK_DEADLOCK FALSE
