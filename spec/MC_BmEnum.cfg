SPECIFICATION Spec
CONSTANTS
  MaxH = 4
INVARIANTS AlgIsDef Ascending WordsFollowPreOrder EncodeDecode
CHECK_DEADLOCK FALSE
