--------------------------- MODULE Strs ---------------------------
(* Definition layer (D) of packages bitword (C08), bitstr (C09) and sigbits (C16, C17):       *)
(* everything is said about the MSB-first bit sequence of a byte string (module Strings).      *)
EXTENDS Strings, FiniteSets, FiniteSetsExt

SMin(a, b) == IF a < b THEN a ELSE b

\* ---------------------------------------------------------------- bitword (C08)
\* number of n-bit words of s, and word i (0-based) as a number
NWords(s, n)   == (BB * Len(s)) \div n
WordAt(s, i, n) == BitsVal([j \in 1..n |-> SBit(s, i * n + j)])
FromStrD(s, n)  == [i \in 1..NWords(s, n) |-> WordAt(s, i - 1, n)]
\* pack in-range n-bit words MSB first, zero-padding the last byte
ToStrD(ws, n) ==
    LET perByte == BB \div n
        nbytes  == (Len(ws) + perByte - 1) \div perByte
        wordOr0(k) == IF k <= Len(ws) THEN ws[k] ELSE 0
        RECURSIVE ByteVal(_, _)
        ByteVal(b, j) == IF j = 0 THEN 0 ELSE ByteVal(b, j - 1) * (2 ^ n) + wordOr0((b - 1) * perByte + j)
    IN [b \in 1..nbytes |-> ByteVal(b, perByte)]
\* smallest word index in [from, lim) where a and b differ, or lim; end = -1 stands for the end of a
FirstDiffD(a, b, n, from, end) ==
    LET e1  == IF end = -1 THEN NWords(a, n) ELSE end
        lim == SMin(SMin(e1, NWords(a, n)), NWords(b, n))
        D   == {i \in from..(lim - 1) : WordAt(a, i, n) # WordAt(b, i, n)}
    IN IF D = {} THEN lim ELSE Min(D)

\* ---------------------------------------------------------------- bitstr (C09)
\* the bit string New(s, from, to) encodes: s[BB*floor(from/BB), to)
EncBits(s, from, to) == LET st == BB * (from \div BB) IN [j \in 1..(to - st) |-> SBit(s, st + j)]
\* CmpUpto: the first Len(y) bits of the plain bytes a (all of a when shorter) against y
CmpUptoD(a, y) == LexCmp(Take(SBits(a), Len(y)), y)

\* ---------------------------------------------------------------- sigbits (C16)
\* index (0-based) of the first position at which the bit sequences x and y differ, or the shorter
\* length when one is a prefix of the other (for whole keys: BB*min(len), a byte-prefix)
FirstDiffSeq(x, y) ==
    LET n == SMin(Len(x), Len(y))
        D == {j \in 1..n : x[j] # y[j]}
    IN IF D = {} THEN n ELSE Min(D) - 1
FirstDiffBitD(a, b) == FirstDiffSeq(SBits(a), SBits(b))
FirstDiffBitsD(keys) == [i \in 1..(Len(keys) - 1) |-> FirstDiffBitD(keys[i], keys[i + 1])]
\* CountPrefixes over keys[s..e) (0-based s, exclusive e), m counters; kb = the keys' bit sequences
CountPrefixesD(kb, s, e, m) ==
    LET m0 == Min({FirstDiffSeq(kb[i], kb[i + 1]) : i \in (s + 1)..(e - 1)})
        pre(k, n) == Take(kb[k], n)                \* a shorter key counts as itself
    IN <<m0, [i \in 1..m |-> Cardinality({pre(k, m0 + i - 1) : k \in (s + 1)..e})]>>
KeyBitSeqs(keys) == [k \in 1..Len(keys) |-> SBits(keys[k])]

\* ---------------------------------------------------------------- ShardByPrefix (C17): a relation
AllAgree(keys, s, e, n) == \A k \in s..e : Len(keys[k]) >= n /\ Take(keys[k], n) = Take(keys[s], n)
\* longest common prefix, in bytes, of keys[s..e] (1-based, inclusive); a single key: its own length
LCPBytesDef(keys, s, e) == Max({n \in 0..Len(keys[s]) : AllAgree(keys, s, e, n)})
\* the same through the first differing byte of each key against the first one (linear in the key length, so
\* that keys of 10^5 bytes can be judged); MC_SigBits checks LCPBytes = LCPBytesDef
LCP2(a, b) == LET n == SMin(Len(a), Len(b))
                  D == {i \in 1..n : a[i] # b[i]}
              IN IF D = {} THEN n ELSE Min(D) - 1
LCPBytes(keys, s, e) == Min({LCP2(keys[s], keys[k]) : k \in s..e})
StrictlyAscending(keys) == \A i \in 1..(Len(keys) - 1) : LexCmp(keys[i], keys[i + 1]) = -1
ShardOK(keys, maxSize, L, B) ==
    /\ Len(B) >= 2 /\ Len(L) = Len(B) - 1
    /\ B[1] = 0 /\ B[Len(B)] = Len(keys)
    /\ \A j \in 1..(Len(B) - 1) :
          /\ B[j] < B[j + 1]                                        \* contiguous, non-empty
          /\ B[j + 1] - B[j] <= maxSize                             \* bounded
          /\ L[j] = LCPBytes(keys, B[j] + 1, B[j + 1])              \* exact common prefix length
    /\ \A j \in 1..(Len(L) - 1) :                                   \* prefixes strictly ascending
          LexCmp(Take(keys[B[j] + 1], L[j]), Take(keys[B[j + 1] + 1], L[j + 1])) = -1
====================================================================
