--------------------------- MODULE Gen_SectionWriter ---------------------------
(* GEN engine for C18: TLC (simulation mode) walks the SectionWriter machine at real offsets, *)
(* choosing buffer lengths, offsets and underlying-writer behaviours relative to the current   *)
(* state (ending exactly at / one before / beyond the limit, before the section start ...) and *)
(* writes every behaviour as a driver case; the driver replays it against the real code and   *)
(* the resulting trace is validated by Trace_SectionWriter.                                    *)
EXTENDS SectionWriter, TLC, Json, IOUtils, CSV

CONSTANTS Bases, Sizes, Depth

VARIABLES hist, done
vars == <<base, limit, cur, calls, ret, hist, done>>

Buf(n, salt) == [i \in 1..n |-> (i * 37 + salt) % 256]
Room == limit - cur
Clip(S) == {x \in S : x >= 0 /\ x <= 80}
Lens == Clip({0, 1, 5, Room - 1, Room, Room + 1, Room + 3})
N == limit - base
WOffs == {x \in {-1, 0, 1, 3, N - 1, N, N + 1, N + 4} : x >= -1 /\ x < 5000}
SOffs == {x \in {0, 1, -1, N, N + 1, -(cur - base), -(cur - base) - 1, -(cur - base) + 2, -N, -N - 1, -base - 1, 6} : x > -100000 /\ x < 5000}
Env(m) == {<<m, FALSE>>} \cup {<<k, TRUE>> : k \in {0, m \div 2, m}}
Offered(len, at) == IF len < limit - at THEN len ELSE IF limit - at > 0 THEN limit - at ELSE 0

Init ==
    /\ \E b \in Bases, n \in Sizes :
          /\ base = b /\ cur = b /\ limit = b + n
          /\ hist = << [k |-> "New", base |-> b, n |-> n] >>
    /\ calls = <<>> /\ ret = [n |-> 0, err |-> "nil"] /\ done = FALSE

Step ==
    \/ \E len \in Lens : \E ke \in Env(Offered(len, cur)) :
          LET p == Buf(len, cur) IN
          /\ Write(p, ke[1], ke[2])
          /\ hist' = Append(hist, [k |-> "Write", p |-> p, acc |-> ke[1], fail |-> ke[2]])
    \/ \E len \in Clip({0, 1, 4, N, N + 1}), off \in WOffs : \E ke \in Env(Offered(len, off + base)) :
          LET p == Buf(len, off + 11) IN
          /\ WriteAt(p, off, ke[1], ke[2])
          /\ hist' = Append(hist, [k |-> "WriteAt", p |-> p, off |-> off, acc |-> ke[1], fail |-> ke[2]])
    \/ \E off \in SOffs, w \in {0, 1, 2, 3} :
          /\ Seek(off, w)
          /\ hist' = Append(hist, [k |-> "Seek", off |-> off, w |-> w])
    \/ /\ Size /\ hist' = Append(hist, [k |-> "Size"])
    \/ /\ Seek(0, 1) /\ hist' = Append(hist, [k |-> "Seek", off |-> 0, w |-> 1])   \* cursor probe

Emit ==
    /\ CSVWrite("%1$s", <<ToJson(hist)>>, IOEnv.VERIF_GEN_OUT)
    /\ done' = TRUE /\ UNCHANGED <<base, limit, cur, calls, ret, hist>>

Next == /\ ~done
        /\ IF Len(hist) <= Depth THEN Step /\ done' = FALSE ELSE Emit

Spec == Init /\ [][Next]_vars
Inv == Confined /\ CursorNotBeforeBase
=================================================================================
