SPECIFICATION Spec
CONSTANTS
  W = 64
  Depth = 6
INVARIANT Inv
CHECK_DEADLOCK FALSE
