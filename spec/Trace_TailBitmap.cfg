SPECIFICATION TraceSpec
CONSTANTS
  W = 64
  RT = 1024
POSTCONDITION TraceAccepted
CHECK_DEADLOCK FALSE
