--------------------------- MODULE MC_BmEnum ---------------------------
(* C04 (and C10's order claim), scaled exhaustive.                                             *)
(* AllPaths of bmtree/allpaths.go (walk the full-length search values i from from.hi to         *)
(* min(to.hi + 1, 2^h); for each, the levels from the trailing-zero count of i, clipped to h,   *)
(* down to 0; skip p < from; return at p >= to) equals the definition: the stored nodes of the  *)
(* pre-order sequence whose word w satisfies from <= w < to, for EVERY mask of height <= MaxH   *)
(* and every from/to with all four halves ranging over 0..2^h (on and off real paths).          *)
(* Words are <<hi, lo>> pairs ordered lexicographically (= unsigned 64-bit order).              *)
(* Also: along the pre-order the words are strictly increasing, and Decode(Encode(X)) = X.       *)
EXTENDS Bmtree, TLC

CONSTANT MaxH
VARIABLES t, from, to, phase
vars == <<t, from, to, phase>>

H == HeightOf(t)
\* Init picks the mask, one Next step picks from/to (so that TLC's workers share the enumeration)
Init == t \in 1..(P2(MaxH + 1) - 1) /\ from = <<0, 0>> /\ to = <<0, 0>> /\ phase = 0
Next == /\ phase = 0 /\ phase' = 1 /\ t' = t
        /\ LET h == HeightOf(t) IN from' \in (0..P2(h)) \X (0..P2(h)) /\ to' \in (0..P2(h)) \X (0..P2(h))
Spec == Init /\ [][Next]_vars

RECURSIVE PreFrom(_, _, _)
PreFrom(l, v, h) == <<<<l, v>>>> \o (IF l < h THEN PreFrom(l + 1, 2 * v, h) \o PreFrom(l + 1, 2 * v + 1, h) ELSE <<>>)
PreAll == [h \in 0..MaxH |-> PreFrom(0, 0, h)]
WordOf(n) == PathHL(H, n[1], n[2])
HLLeq(p, q) == p = q \/ HLLess(p, q)

\* ---- the definition
AllPathsD ==
    LET st == SelectSeq(PreAll[H], LAMBDA n : BitOf(t, n[1]) = 1 /\ HLLeq(from, WordOf(n)) /\ HLLess(WordOf(n), to))
    IN [j \in DOMAIN st |-> WordOf(st[j])]

\* ---- the code
RECURSIVE TZc(_, _)
TZc(i, cap) == IF cap = 0 \/ i % 2 = 1 THEN 0 ELSE 1 + TZc(i \div 2, cap - 1)     \* min(TrailingZeros(i), h); tz(0) = 64 -> h
RECURSIVE LevelWalk(_, _, _)      \* inner loop: tz down to 0; returns <<paths, stop>>
LevelWalk(i, tz, acc) ==
    IF tz < 0 THEN <<acc, FALSE>>
    ELSE IF BitOf(t, H - tz) = 0 THEN LevelWalk(i, tz - 1, acc)
    ELSE LET p == <<i, (P2(H) - 1) - (P2(tz) - 1)>>                             \* (i << 32) | (fullPathMask ^ Mask[tz])
         IN IF HLLess(p, from) THEN LevelWalk(i, tz - 1, acc)
            ELSE IF ~HLLess(p, to) THEN <<acc, TRUE>>
            ELSE LevelWalk(i, tz - 1, Append(acc, p))
RECURSIVE Outer(_, _, _)
Outer(i, lim, acc) ==
    IF i >= lim THEN acc
    ELSE LET r == LevelWalk(i, TZc(i, H), acc) IN IF r[2] THEN r[1] ELSE Outer(i + 1, lim, r[1])
AllPathsAlg ==
    LET t1 == to[1] + 1
        lim == IF t1 > P2(H) THEN P2(H) ELSE t1
    IN Outer(from[1], lim, <<>>)

AlgIsDef == AllPathsAlg = AllPathsD
\* strictly ascending, no duplicates
Ascending == \A j \in 1..(Len(AllPathsD) - 1) : HLLess(AllPathsD[j], AllPathsD[j + 1])
\* numeric order of the words = pre-order (checked once per mask, on the whole tree)
WordsFollowPreOrder == phase = 0 =>
    \A j \in 1..(Len(PreAll[H]) - 1) : HLLess(WordOf(PreAll[H][j]), WordOf(PreAll[H][j + 1]))
\* Decode(Encode(X)) = X for every set X of stored nodes: Idx2 is injective on stored nodes (once per mask)
EncodeDecode == phase = 0 =>
    LET st == SelectSeq(PreAll[H], LAMBDA n : BitOf(t, n[1]) = 1)
    IN \A a, b \in DOMAIN st : a # b => Idx2(t, st[a][1], st[a][2]) # Idx2(t, st[b][1], st[b][2])
==========================================================================
