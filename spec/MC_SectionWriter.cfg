SPECIFICATION Spec
CONSTANTS
  Inf = 1000
  Bases = {0, 2}
  Sizes = {0, 1, 3}
  MaxLen = 4
  MaxDepth = 4
INVARIANTS Confined CursorNotBeforeBase CountIsAccepted ContentIsPrefix ShortWriteExactly SizeIsN
PROPERTIES NoCallOnlyOutside WriteMovesCursorByCount WriteAtKeepsCursor SeekSemantics
CHECK_DEADLOCK FALSE
