SPECIFICATION Spec
CONSTANTS
  BB = 2
  MaxLen = 3
  SW = 2
INVARIANTS LenOK CmpOK CmpUptoOK
CHECK_DEADLOCK FALSE
