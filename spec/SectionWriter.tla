--------------------------- MODULE SectionWriter ---------------------------
(* iohelper.SectionWriter (iohelper/iohelper.go): Write/WriteAt/Seek/Size on a section       *)
(* [base, limit) of an underlying io.WriterAt.  One action per public method; the environment *)
(* (the underlying writer) chooses how many of the offered bytes it accepts and whether it   *)
(* fails.  AtToWriter(w, off) is a section with limit = Inf.                                 *)
(*                                                                                           *)
(* State: base, limit  the section (absolute offsets)                                        *)
(*        cur          the cursor used by Write (absolute)                                   *)
(*        calls        the calls the last operation made on the underlying writer            *)
(*        ret          what the last operation returned                                      *)
EXTENDS Integers, Sequences

CONSTANT Inf      \* "no practical end" (0x7fffffffffffffff in the code)

VARIABLES base, limit, cur, calls, ret
swvars == <<base, limit, cur, calls, ret>>

Min2(a, b) == IF a < b THEN a ELSE b

New(b, n) ==
    /\ base' = b /\ cur' = b /\ limit' = b + n
    /\ calls' = <<>> /\ ret' = [n |-> 0, err |-> "nil"]

NewAt(b) ==      \* AtToWriter(w, b)
    /\ base' = b /\ cur' = b /\ limit' = Inf
    /\ calls' = <<>> /\ ret' = [n |-> 0, err |-> "nil"]

\* AtToWriter in coordinates relative to its start: the section ends at MaxInt64, `room` bytes on
\* (no practical end unless the start is right below MaxInt64)
NewAtRoom(room) ==
    /\ base' = 0 /\ cur' = 0 /\ limit' = IF room >= Inf THEN Inf ELSE room
    /\ calls' = <<>> /\ ret' = [n |-> 0, err |-> "nil"]

\* error of a write that offered m of n bytes to the underlying writer, which failed iff e
WriteErrL(n, m, e) == IF e THEN "inj" ELSE IF m < n THEN "ShortWrite" ELSE "nil"
WriteErr(p, m, e) == WriteErrL(Len(p), m, e)

\* What Write / WriteAt do with a buffer of n bytes, as a function of the state (the contents of the buffer play
\* no part in it): whether the underlying writer is called, where, with how many bytes (m), the new cursor, the
\* result.  k: bytes the underlying writer accepts (at most what it is offered); e: it reports an error.
\* A writer that reports no error accepts everything (io.WriterAt contract).
WriteOutcome(n, k, e) ==
    IF cur >= limit
    THEN [made |-> FALSE, off |-> 0, m |-> 0, cur |-> cur, ret |-> [n |-> 0, err |-> "ShortWrite"]]
    ELSE LET m == Min2(n, limit - cur)
         IN [made |-> TRUE, off |-> cur, m |-> m, cur |-> cur + k, ret |-> [n |-> k, err |-> WriteErrL(n, m, e)]]
WriteAtOutcome(n, off, k, e) ==
    IF off < 0 \/ off >= limit - base
    THEN [made |-> FALSE, off |-> 0, m |-> 0, cur |-> cur, ret |-> [n |-> 0, err |-> "ShortWrite"]]
    ELSE LET abs == off + base
             m == Min2(n, limit - abs)
         IN [made |-> TRUE, off |-> abs, m |-> m, cur |-> cur,      \* WriteAt never moves the cursor
             ret |-> [n |-> k, err |-> WriteErrL(n, m, e)]]
EnvOK(w, k, e) == w.made => (k \in 0..w.m /\ (~e => k = w.m))

\* the step with the buffer's contents: the call carries the first m bytes of p
SWStep(w, p, k, e) ==
    /\ EnvOK(w, k, e)
    /\ calls' = IF w.made THEN << [off |-> w.off, p |-> SubSeq(p, 1, w.m), k |-> k, e |-> e] >> ELSE <<>>
    /\ cur' = w.cur /\ ret' = w.ret /\ UNCHANGED <<base, limit>>
Write(p, k, e)        == SWStep(WriteOutcome(Len(p), k, e), p, k, e)
WriteAt(p, off, k, e) == SWStep(WriteAtOutcome(Len(p), off, k, e), p, k, e)

\* the same steps for a buffer given by its LENGTH only (buffers of 2^30 bytes and more cannot be written down):
\* the call carries zeros, of which only the number matters
SWStepL(w, k, e) ==
    /\ EnvOK(w, k, e)
    /\ calls' = IF w.made THEN << [off |-> w.off, p |-> <<>>, n |-> w.m, k |-> k, e |-> e] >> ELSE <<>>
    /\ cur' = w.cur /\ ret' = w.ret /\ UNCHANGED <<base, limit>>
WriteL(n, k, e)        == SWStepL(WriteOutcome(n, k, e), k, e)
WriteAtL(n, off, k, e) == SWStepL(WriteAtOutcome(n, off, k, e), k, e)

Seek(off, whence) ==
    IF whence \notin {0, 1, 2}
    THEN /\ ret' = [n |-> 0, err |-> "Whence"] /\ calls' = <<>> /\ UNCHANGED <<base, limit, cur>>
    ELSE LET target == off + (CASE whence = 0 -> base [] whence = 1 -> cur [] whence = 2 -> limit)
         IN IF target < base
            THEN /\ ret' = [n |-> 0, err |-> "Offset"] /\ calls' = <<>> /\ UNCHANGED <<base, limit, cur>>
            ELSE /\ cur' = target /\ ret' = [n |-> target - base, err |-> "nil"] /\ calls' = <<>>
                 /\ UNCHANGED <<base, limit>>

Size ==
    /\ ret' = [n |-> limit - base, err |-> "nil"] /\ calls' = <<>> /\ UNCHANGED <<base, limit, cur>>

\* ---- the property, as state invariants on what reached the underlying writer
CallLen(c) == IF "n" \in DOMAIN c THEN c.n ELSE Len(c.p)
Confined ==
    \A i \in DOMAIN calls :
        /\ calls[i].off >= base /\ calls[i].off < limit
        /\ calls[i].off + CallLen(calls[i]) <= limit
CursorNotBeforeBase == cur >= base
=============================================================================
