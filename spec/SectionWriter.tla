--------------------------- MODULE SectionWriter ---------------------------
(* iohelper.SectionWriter (iohelper/iohelper.go): Write/WriteAt/Seek/Size on a section       *)
(* [base, limit) of an underlying io.WriterAt.  One action per public method; the environment *)
(* (the underlying writer) chooses how many of the offered bytes it accepts and whether it   *)
(* fails.  AtToWriter(w, off) is a section with limit = Inf.                                 *)
(*                                                                                           *)
(* State: base, limit  the section (absolute offsets)                                        *)
(*        cur          the cursor used by Write (absolute)                                   *)
(*        calls        the calls the last operation made on the underlying writer            *)
(*        ret          what the last operation returned                                      *)
EXTENDS Integers, Sequences

CONSTANT Inf      \* "no practical end" (0x7fffffffffffffff in the code)

VARIABLES base, limit, cur, calls, ret
swvars == <<base, limit, cur, calls, ret>>

Min2(a, b) == IF a < b THEN a ELSE b

New(b, n) ==
    /\ base' = b /\ cur' = b /\ limit' = b + n
    /\ calls' = <<>> /\ ret' = [n |-> 0, err |-> "nil"]

NewAt(b) ==      \* AtToWriter(w, b)
    /\ base' = b /\ cur' = b /\ limit' = Inf
    /\ calls' = <<>> /\ ret' = [n |-> 0, err |-> "nil"]

\* AtToWriter in coordinates relative to its start: the section ends at MaxInt64, `room` bytes on
\* (no practical end unless the start is right below MaxInt64)
NewAtRoom(room) ==
    /\ base' = 0 /\ cur' = 0 /\ limit' = IF room >= Inf THEN Inf ELSE room
    /\ calls' = <<>> /\ ret' = [n |-> 0, err |-> "nil"]

\* error of a write that offered m of Len(p) bytes to the underlying writer, which failed iff e
WriteErr(p, m, e) == IF e THEN "inj" ELSE IF m < Len(p) THEN "ShortWrite" ELSE "nil"

\* k: bytes the underlying writer accepts (at most what it is offered); e: it reports an error.
\* A writer that reports no error accepts everything (io.WriterAt contract).
Write(p, k, e) ==
    IF cur >= limit
    THEN /\ ret' = [n |-> 0, err |-> "ShortWrite"] /\ calls' = <<>>
         /\ UNCHANGED <<base, limit, cur>>
    ELSE LET m == Min2(Len(p), limit - cur)
             q == SubSeq(p, 1, m)
         IN /\ k \in 0..m /\ (~e => k = m)
            /\ calls' = << [off |-> cur, p |-> q, k |-> k, e |-> e] >>
            /\ cur' = cur + k
            /\ ret' = [n |-> k, err |-> WriteErr(p, m, e)]
            /\ UNCHANGED <<base, limit>>

WriteAt(p, off, k, e) ==
    IF off < 0 \/ off >= limit - base
    THEN /\ ret' = [n |-> 0, err |-> "ShortWrite"] /\ calls' = <<>>
         /\ UNCHANGED <<base, limit, cur>>
    ELSE LET abs == off + base
             m == Min2(Len(p), limit - abs)
             q == SubSeq(p, 1, m)
         IN /\ k \in 0..m /\ (~e => k = m)
            /\ calls' = << [off |-> abs, p |-> q, k |-> k, e |-> e] >>
            /\ ret' = [n |-> k, err |-> WriteErr(p, m, e)]
            /\ UNCHANGED <<base, limit, cur>>     \* WriteAt never moves the cursor

Seek(off, whence) ==
    IF whence \notin {0, 1, 2}
    THEN /\ ret' = [n |-> 0, err |-> "Whence"] /\ calls' = <<>> /\ UNCHANGED <<base, limit, cur>>
    ELSE LET target == off + (CASE whence = 0 -> base [] whence = 1 -> cur [] whence = 2 -> limit)
         IN IF target < base
            THEN /\ ret' = [n |-> 0, err |-> "Offset"] /\ calls' = <<>> /\ UNCHANGED <<base, limit, cur>>
            ELSE /\ cur' = target /\ ret' = [n |-> target - base, err |-> "nil"] /\ calls' = <<>>
                 /\ UNCHANGED <<base, limit>>

Size ==
    /\ ret' = [n |-> limit - base, err |-> "nil"] /\ calls' = <<>> /\ UNCHANGED <<base, limit, cur>>

\* ---- the property, as state invariants on what reached the underlying writer
Confined ==
    \A i \in DOMAIN calls :
        /\ calls[i].off >= base /\ calls[i].off < limit
        /\ calls[i].off + Len(calls[i].p) <= limit
CursorNotBeforeBase == cur >= base
=============================================================================
