--------------------------- MODULE Gen_PbFrame ---------------------------
(* GEN engine for C06/C07: TLC (simulation mode) drives the ENVIRONMENT of the pbcmpl stream      *)
(* machine - which frames are marshalled, where the writer fails, where the reader's data ends      *)
(* (relative to the frame boundaries it knows), with EOF or an injected error, reported together    *)
(* with the last bytes or separately, in which chunks - and writes each behaviour as a driver      *)
(* case.  Only lengths are tracked here (legacy raw messages: frame length = 32 + payload length);  *)
(* the bytes, and the judgement of every call, are Trace_PbFrame's business.                        *)
EXTENDS Integers, Sequences, TLC, Json, IOUtils, CSV

CONSTANTS Depth
VARIABLES lens, rpos, hist, done      \* lens: lengths of the pieces written to the stream so far (frames or torn prefixes)
vars == <<lens, rpos, hist, done>>

H == 32
RECURSIVE Sum(_)
Sum(s) == IF Len(s) = 0 THEN 0 ELSE s[1] + Sum(Tail(s))
Total == Sum(lens)
PLens == {0, 1, 2, 31, 32, 33, 100, 300, 4097}
Vers == {"", "1", "1.0.0", "1234567890123456"}
\* where the reader's data ends, counted from the read position: around the header and the frame boundaries
Cuts == LET rest == Total - rpos IN
        {c \in {0, 1, H - 1, H, H + 1, H + 2, rest - 1, rest, rest - H, rest - H - 1, 4095, 4096, 4097, H + 4096} : c >= 0 /\ c <= rest + 1}
Chunks == {<<>>, <<1>>, <<7>>, <<31, 1, 1, 100>>, <<4096>>}

Init == lens = <<>> /\ rpos = 0 /\ hist = <<>> /\ done = FALSE

Step ==
    \/ \E pl \in PLens, v \in Vers, hv \in BOOLEAN :                  \* a complete frame
          /\ lens' = Append(lens, H + pl) /\ UNCHANGED rpos
          /\ hist' = Append(hist, [k |-> "Marshal", kind |-> "raw", hasver |-> hv, vers |-> v, plen |-> pl, w |-> <<>>])
    \/ \E pl \in PLens, k \in {0, 1, 16, 31, 32} :                    \* the writer fails on the header write
          /\ lens' = Append(lens, IF k < H THEN k ELSE H) /\ UNCHANGED rpos
          /\ hist' = Append(hist, [k |-> "Marshal", kind |-> "raw", hasver |-> FALSE, vers |-> "", plen |-> pl, w |-> << <<k, 1>> >>])
    \/ \E pl \in PLens \ {0}, k \in {0, 1, 30, 99, 4096} :            \* ... or on the body write
          /\ lens' = Append(lens, H + (IF k < pl THEN k ELSE pl)) /\ UNCHANGED rpos
          /\ hist' = Append(hist, [k |-> "Marshal", kind |-> "raw", hasver |-> FALSE, vers |-> "", plen |-> pl, w |-> << <<0, 0>>, <<k, 1>> >>])
    \/ \E c \in Cuts \cup {-1}, f \in {"EOF", "inj"}, ewd \in BOOLEAN, ch \in Chunks, op \in {"Unmarshal", "Unmarshal", "ReadHeader"} :
          /\ Total > 0
          /\ hist' = Append(hist, [k |-> op, avail |-> c, fault |-> f, ewd |-> ewd, chunks |-> ch, kind |-> "raw"])
          \* the read position is not known exactly here (it depends on what the call consumes): it is advanced by
          \* one frame when the whole next piece was available, otherwise a Rewind follows
          /\ UNCHANGED <<lens, rpos>>
    \/ /\ Total > 0 /\ hist' = Append(hist, [k |-> "Rewind"]) /\ rpos' = 0 /\ UNCHANGED lens

Emit == /\ CSVWrite("%1$s", <<ToJson(hist)>>, IOEnv.VERIF_GEN_OUT)
        /\ done' = TRUE /\ UNCHANGED <<lens, rpos, hist>>
Next == ~done /\ (IF Len(hist) < Depth THEN Step /\ done' = FALSE ELSE Emit)
Spec == Init /\ [][Next]_vars
==========================================================================
