--------------------------- MODULE Vers ---------------------------
(* Package vers (vers/vers.go): Check(ver, spec...) and IsCompatible(ver, specs).  A version is  *)
(* <<major, minor, patch, pre>> with pre = 0 for a release and pre > 0 for the numeric           *)
(* pre-release "-pre" (which sorts BEFORE the release).  A spec is a disjunction (the strings      *)
(* joined with "||") of conjunctions (comparators separated by blanks) of <<op, version>>.          *)
EXTENDS Integers, Sequences

Ops == {"<", "<=", ">", ">=", "=", "!="}

\* -1, 0, 1: semantic-version precedence
PreKey(v) == IF v[4] = 0 THEN 1000000 ELSE v[4]           \* a release is greater than any of its pre-releases
VCmp(a, b) ==
    LET ka == <<a[1], a[2], a[3], PreKey(a)>>  kb == <<b[1], b[2], b[3], PreKey(b)>>
        D == {i \in 1..4 : ka[i] # kb[i]} IN
    IF D = {} THEN 0
    ELSE LET i == CHOOSE j \in D : \A k \in D : j <= k IN IF ka[i] < kb[i] THEN -1 ELSE 1

Sat(v, c) ==
    LET r == VCmp(v, c[2]) IN
    CASE c[1] = "<"  -> r < 0
      [] c[1] = "<=" -> r <= 0
      [] c[1] = ">"  -> r > 0
      [] c[1] = ">=" -> r >= 0
      [] c[1] = "="  -> r = 0
      [] c[1] = "!=" -> r # 0

\* spec: sequence (OR) of sequences (AND) of comparators
CheckD(v, spec) == \E i \in DOMAIN spec : \A j \in DOMAIN spec[i] : Sat(v, spec[i][j])
===================================================================
