--------------------------- MODULE SWEnv ---------------------------
(* What the (scripted, logged) underlying writer saw during ONE SectionWriter request, compared  *)
(* with the single call the SectionWriter machine makes.  C18 fixes which bytes reach the         *)
(* underlying writer, where, and what is returned; it does not fix in how many WriteAt calls a    *)
(* request is passed on.  So the log may hold several PIECES: they must be adjacent and in order, *)
(* start where the machine's call starts, carry a prefix of the machine's bytes (all of them if   *)
(* nothing failed), and no piece may follow one that failed or was cut short.  A logged call is    *)
(* [off, p, k, e] (bytes p offered, k accepted, e: it reported an error) or, for buffers too long  *)
(* to write down, [off, p = <<>>, n, k, e] with n the number of (zero) bytes offered.              *)
EXTENDS Integers, Sequences

PLen(c) == IF "n" \in DOMAIN c THEN c.n ELSE Len(c.p)
NonEmpty(cs) == SelectSeq(cs, LAMBDA c : PLen(c) > 0)

RECURSIVE CatP(_), SumK(_), SumN(_)
CatP(ps) == IF ps = <<>> THEN <<>> ELSE Head(ps).p \o CatP(Tail(ps))
SumK(ps) == IF ps = <<>> THEN 0 ELSE Head(ps).k + SumK(Tail(ps))
SumN(ps) == IF ps = <<>> THEN 0 ELSE PLen(Head(ps)) + SumN(Tail(ps))

\* bytes accepted in total; whether the (last) piece failed
EnvKOf(under) == SumK(NonEmpty(under))
EnvEOf(under) == LET ps == NonEmpty(under) IN ps # <<>> /\ ps[Len(ps)].e

PiecesOK(ps) ==
    \A j \in 1..(Len(ps) - 1) :
        /\ ~ps[j].e /\ ps[j].k = PLen(ps[j])
        /\ ps[j + 1].off = ps[j].off + PLen(ps[j])

IsPrefixOf(a, b) == Len(a) <= Len(b) /\ a = SubSeq(b, 1, Len(a))

\* mcalls: the machine's calls of this step (at most one)
UnderOK(under, mcalls) ==
    LET ps == NonEmpty(under)  ms == NonEmpty(mcalls) IN
    IF ms = <<>> THEN ps = <<>>            \* (a call that offers no bytes may or may not be made)
    ELSE /\ ps # <<>> /\ PiecesOK(ps)
         /\ ps[1].off = ms[1].off
         /\ SumN(ps) <= PLen(ms[1])
         /\ (~EnvEOf(under) => SumN(ps) = PLen(ms[1]))
         \* contents: a prefix of the machine's bytes; for a buffer given by its length (zeros), zeros
         /\ IF "n" \in DOMAIN ms[1] THEN \A j \in DOMAIN CatP(ps) : CatP(ps)[j] = 0
                                    ELSE IsPrefixOf(CatP(ps), ms[1].p)
=====================================================================
