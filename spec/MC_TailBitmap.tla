--------------------------- MODULE MC_TailBitmap ---------------------------
(* Scaled exhaustive check of C15 on the TailBitmap state machine, with the history      *)
(* variables the property talks about: o0 (initial offset) and ever (every idx ever Set). *)
EXTENDS TailBitmap, TLC

CONSTANTS Offsets, MaxIdx

VARIABLES o0, ever, last, everTrim
vars == <<offset, nw, bits, reclaimed, o0, ever, last, everTrim>>

Trim(S, o) == {x \in S : x >= o}

Init ==
    /\ o0 \in Offsets
    /\ offset = o0 /\ nw = 0 /\ bits = {} /\ reclaimed = o0
    /\ ever = {} /\ last = "new" /\ everTrim = {}

DoSet(idx) ==
    /\ Set(idx)
    /\ ever' = ever \cup {idx}
    /\ everTrim' = Trim(everTrim \cup {idx}, offset')
    /\ last' = "set" /\ o0' = o0

DoCompactCall ==
    /\ Compact
    /\ everTrim' = Trim(everTrim, offset')
    /\ last' = "compact" /\ UNCHANGED <<o0, ever>>

Next == (\E idx \in 0..MaxIdx : DoSet(idx)) \/ DoCompactCall

Spec == Init /\ [][Next]_vars

\* ---- the property
TypeOK == /\ offset \in Nat /\ nw \in Nat /\ bits \subseteq 0..(MaxIdx + W) /\ Aligned /\ InRange
NeverForgetsNorInvents ==
    \A j \in 0..(offset + W * nw - 1) : (Get1Val(j) = 1) <=> (j < o0 \/ j \in ever)
GetInPlace ==
    \A j \in 0..(offset + W * nw - 1) : GetVal(j) = IF (j < o0 \/ j \in ever) THEN {j % W} ELSE {}
NoZeroBelowOffset   == \A j \in o0..(offset - 1) : j \in ever
HeadNotFullAfterSet == (last = "set" /\ nw > 0) => ~Full(offset, bits)
\* the cheap monitor used at real scale by the trace specification is equivalent to the history form
MonitorEquiv == everTrim = Trim(ever, offset) /\ bits = everTrim

\* the functional forms used by behaviour generation are the actions
FunctionalFormsAgree == [][/\ (last' = "compact" => tbvars' = CompactF(tbvars))
                           /\ (last' = "set" => \E idx \in 0..MaxIdx : tbvars' = SetF(tbvars, idx))]_vars
\* the closed form of the range macro-step is the composition of the single steps, in every reachable state
RangeFormAgrees == \A lo \in 0..MaxIdx : \A hi \in (lo + 1)..(MaxIdx + 1) :
                      RangeOK(tbvars, lo, hi) => SetRangeF(tbvars, lo, hi) = SetFold(tbvars, lo, hi)
\* the words Compact drops are exactly a run of words whose every position is set: the form TailBitmapProof.tla (TLAPS,
\* W = 64, unbounded positions) uses for Compact, "drop k words for a k with RunFull(offset, k, bits)"
RunFullAgrees    == LET k == LeadingFull(offset, nw, bits) IN
                       /\ k \in 0..nw
                       /\ \A j \in offset..(offset + W * k - 1) : j \in bits
                       /\ Compacted(offset, nw, bits) = <<offset + k * W, nw - k, IF k = 0 THEN bits ELSE {x \in bits : x >= offset + k * W}>>
\* a Set beyond the head word only adds the bit and grows the words to hold it: the form Trace_TailBitmapFar uses for
\* positions 2^31 bits and more beyond the Offset (kept as pairs there)
FarFormAgrees    == \A idx \in (offset + W)..MaxIdx :
                       LET wi == (idx - offset) \div W IN
                       SetF(tbvars, idx) = <<offset, IF wi >= nw THEN wi + 1 ELSE nw, bits \cup {idx}, reclaimed>>
OffsetMonotone   == [][offset' >= offset]_vars
CompactKeepsGets == [][last' = "compact" =>
                        \A j \in 0..(offset + W * nw - 1) : Get1Val(j)' = Get1Val(j)]_vars
\* the incremental form of NoZeroBelowOffset used by the trace specification
PassedOnlySet    == [][\A j \in offset..(offset' - 1) : j \in ever']_vars
==============================================================================
