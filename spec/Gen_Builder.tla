--------------------------- MODULE Gen_Builder ---------------------------
(* GEN engine for the Builder part of C12: TLC simulates the Builder machine at W = 64 with     *)
(* positions and sizes around word boundaries and writes each behaviour as a driver case.       *)
EXTENDS Builder, TLC, Json, IOUtils, CSV

CONSTANTS Depth
VARIABLES hist, done
vars == <<offset, nw, ones, hist, done>>

Vals == {0, 1, 62, 63, 64, 65, 127, 128, 200}
Lists == {<<>>} \cup {<<a>> : a \in Vals} \cup {<<a, b>> \in Vals \X Vals : a < b}
         \cup {<<0, 1, 63>>, <<63, 64, 65>>, <<1, 64, 128, 200>>}

Init == offset = 0 /\ nw = 0 /\ ones = {} /\ done = FALSE
        /\ \E n \in {0, 1, 64, 1000} : hist = << [k |-> "BNew", n |-> n] >>

Step ==
    \/ \E L \in Lists, size \in Vals :
          /\ Extend(L, size) /\ hist' = Append(hist, [k |-> "BExtend", pos |-> L, size |-> size])
    \/ \E d \in {-2, -1, 0, 1, 63, 64, 130}, val \in {0, 1, 2, 3} :
          LET pos == IF offset + d < 0 THEN 0 ELSE offset + d IN
          /\ Set(pos, val) /\ hist' = Append(hist, [k |-> "BSet", pos |-> pos, val |-> val])

Emit == /\ CSVWrite("%1$s", <<ToJson(hist)>>, IOEnv.VERIF_GEN_OUT)
        /\ done' = TRUE /\ UNCHANGED <<offset, nw, ones, hist>>
Next == ~done /\ (IF Len(hist) <= Depth THEN Step /\ done' = FALSE ELSE Emit)
Spec == Init /\ [][Next]_vars
Inv == EnoughWords
===========================================================================
