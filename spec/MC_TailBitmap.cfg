SPECIFICATION Spec
CONSTANTS
  W = 4
  RT = 2
  Offsets = {0, 4, 8}
  MaxIdx = 15
INVARIANTS TypeOK NeverForgetsNorInvents GetInPlace NoZeroBelowOffset HeadNotFullAfterSet MonitorEquiv RangeFormAgrees RunFullAgrees FarFormAgrees
PROPERTIES FunctionalFormsAgree OffsetMonotone CompactKeepsGets PassedOnlySet
CHECK_DEADLOCK FALSE
