--------------------------- MODULE Trace_Misc ---------------------------
(* Specification growth beyond the listed properties: mathext/util (Min/Max/Clap of every       *)
(* integer type), typehelper.ToSlice, iohelper.AtToReader.                                       *)
EXTENDS TraceIO

VARIABLE l
Ev == Trace[l]
IsEvent(k) == l <= Len(Trace) /\ Ev.k = k /\ Ev.abn = "" /\ l' = l + 1

MinD(a, b) == IF a < b THEN a ELSE b
MaxD(a, b) == IF a > b THEN a ELSE b
\* Clap(n, lo, hi): raise to lo, then lower to hi (in that order, as documented by the code)
ClapD(n, lo, hi) == LET n1 == IF n < lo THEN lo ELSE n IN IF n1 > hi THEN hi ELSE n1
TraceMinMax == /\ IsEvent("minmax")
               /\ Ev.out.min = MinD(Ev.in.a, Ev.in.b) /\ Ev.out.max = MaxD(Ev.in.a, Ev.in.b)
               /\ Ev.out.clap = ClapD(Ev.in.n, Ev.in.a, Ev.in.b)

\* ToSlice keeps the elements in order
TraceToSlice == IsEvent("toslice") /\ Ev.out.r = Ev.in.xs

\* AtToReader(r, off): successive Reads deliver data[off..] in order; EOF after the last byte
RECURSIVE Flatten(_)
Flatten(ss) == IF Len(ss) = 0 THEN <<>> ELSE ss[1] \o Flatten(Tail(ss))
TraceAtToReader ==
    /\ IsEvent("attoreader")
    /\ LET want == SubSeq(Ev.in.data, Ev.in.off + 1, Len(Ev.in.data))
           got == Flatten(Ev.out.chunks) IN
       /\ got = SubSeq(want, 1, Len(got))                       \* a prefix of the data from off, in order
       /\ (Ev.out.eof => got = want)                            \* EOF only after everything was delivered
       /\ \A j \in DOMAIN Ev.out.chunks : Len(Ev.out.chunks[j]) <= Ev.in.sizes[j]

TraceInit == l = 1
TraceNext == TraceMinMax \/ TraceToSlice \/ TraceAtToReader
TraceSpec == TraceInit /\ [][TraceNext]_l
==========================================================================
