--------------------------- MODULE SizeOf ---------------------------
(* size.Of (size/sizeof.go): the structural sum of a value's parts.  A value is described by  *)
(* its type t and its content v (typed value trees, so that homogeneous containers, nil        *)
(* pointers and empty slices can be rebuilt exactly):                                          *)
(*   t = [k |-> scalar kind] | [k |-> "string"] | [k |-> "slice", e |-> t] |                   *)
(*       [k |-> "array", e |-> t] | [k |-> "map", key |-> t, e |-> t] | [k |-> "ptr", e |-> t] *)
(*       | [k |-> "iface"] | [k |-> "struct", f |-> <<t...>>]                                  *)
(*   v = scalar: anything | string: [n] | slice/array: [el |-> <<v...>>] (an element may be    *)
(*       [dup |-> j]: the very same pointer as element j) | map: [kv |-> << <<k, v>> ...>>] |   *)
(*       ptr: [nil, to] | iface: [nil, dt, dyn] | struct: [f |-> <<v...>>]                      *)
EXTENDS Integers, Sequences

ScalarSize == [bool |-> 1, int8 |-> 1, uint8 |-> 1, int16 |-> 2, uint16 |-> 2,
               int32 |-> 4, uint32 |-> 4, float32 |-> 4,
               int64 |-> 8, uint64 |-> 8, float64 |-> 8, complex64 |-> 8, complex128 |-> 16,
               int |-> 8, uint |-> 8, uintptr |-> 8]
Scalars == DOMAIN ScalarSize
\* headers on a 64-bit platform
StringHdr == 16
SliceHdr  == 24
MapHdr    == 8
PtrHdr    == 8
IfaceHdr  == 16

RECURSIVE SizeD(_, _)
\* sum of F(1) .. F(n).  Divide and conquer: the recursion is log n deep (a linear recursion of depth 65,536 takes TLC
\* a quarter of an hour: every level lengthens the evaluation context the next one searches).
SumOver(n, F(_)) == LET RECURSIVE S(_, _)
                        S(lo, hi) == IF lo > hi THEN 0
                                     ELSE IF lo = hi THEN F(lo)
                                     ELSE LET mid == (lo + hi) \div 2 IN S(lo, mid) + S(mid + 1, hi)
                    IN S(1, n)
Elem(v, i) == IF "dup" \in DOMAIN v.el[i] THEN v.el[v.el[i].dup + 1] ELSE v.el[i]
SizeD(t, v) ==
    CASE t.k \in Scalars -> ScalarSize[t.k]
      [] t.k = "string" -> StringHdr + v.n
      [] t.k = "slice"  -> SliceHdr + SumOver(Len(v.el), LAMBDA i : SizeD(t.e, Elem(v, i)))
      [] t.k = "array"  -> SumOver(Len(v.el), LAMBDA i : SizeD(t.e, Elem(v, i)))
      [] t.k = "map"    -> MapHdr + SumOver(Len(v.kv), LAMBDA i : SizeD(t.key, v.kv[i][1]) + SizeD(t.e, v.kv[i][2]))
      [] t.k = "ptr"    -> PtrHdr + (IF v.nil THEN 0 ELSE SizeD(t.e, v.to))
      [] t.k = "iface"  -> IfaceHdr + (IF v.nil THEN 0 ELSE SizeD(v.dt, v.dyn))
      [] t.k = "struct" -> SumOver(Len(v.f), LAMBDA i : SizeD(t.f[i], v.f[i]))
      \* a singly linked list of t.n >= 1 nodes "struct { v <scalar t.e>; next *node }", the last next being nil, given by
      \* its length (a recursive type has no finite description as a tree): every node is its scalar plus the header of
      \* its next pointer.  ChainAsTree is the same list spelled out; Gen_SizeOf!Laws checks they agree for short lists.
      [] t.k = "chain"  -> t.n * (ScalarSize[t.e.k] + PtrHdr)
\* ---- size.Stat (beyond the listed properties): the SHAPE of the rendering.  Stat(v, depth, maxItem) is a list of
\* lines; line = <<indent level, the size printed on it>> (the type names and labels in between are not modelled).
\* The header line of a value carries its size; below it, while depth lasts: the first maxItem elements of a slice /
\* array, the pointee of a non-nil pointer, the dynamic value of an interface (a nil interface renders "<nil>": size
\* -1 here), every field of a struct; each one level further in.  Maps are rendered in Go's random map order: only
\* maps with at most one entry are described.  Strings have no sub-lines.
RECURSIVE StatD(_, _, _, _)
Indent(ls) == [i \in DOMAIN ls |-> <<ls[i][1] + 1, ls[i][2]>>]
RECURSIVE ConcatAll(_)
ConcatAll(ss) == IF Len(ss) = 0 THEN <<>> ELSE ss[1] \o ConcatAll(Tail(ss))
StatD(t, v, depth, maxItem) ==
    LET head == << <<0, SizeD(t, v)>> >>
        MinN(a, b) == IF a < b THEN a ELSE b
        subs ==
          CASE t.k \in {"slice", "array"} ->
                 ConcatAll([i \in 1..MinN(Len(v.el), IF maxItem < 0 THEN 0 ELSE maxItem) |-> StatD(t.e, Elem(v, i), depth - 1, maxItem)])
            [] t.k = "ptr"    -> IF v.nil THEN <<>> ELSE StatD(t.e, v.to, depth - 1, maxItem)
            [] t.k = "iface"  -> IF v.nil THEN << <<0, -1>> >> ELSE StatD(v.dt, v.dyn, depth - 1, maxItem)
            [] t.k = "struct" -> ConcatAll([i \in 1..Len(v.f) |-> StatD(t.f[i], v.f[i], depth - 1, maxItem)])
            [] t.k = "map"    -> IF Len(v.kv) = 0 \/ maxItem <= 0 THEN <<>> ELSE StatD(t.e, v.kv[1][2], depth - 1, maxItem)
            [] OTHER -> <<>>
    IN IF depth = 0 THEN head ELSE head \o Indent(subs)
RECURSIVE ChainT(_, _), ChainV(_)
ChainT(e, n) == [k |-> "struct", f |-> <<e, [k |-> "ptr", e |-> IF n <= 1 THEN e ELSE ChainT(e, n - 1)]>>]
ChainV(n) == [f |-> <<[x |-> 1], IF n <= 1 THEN [nil |-> TRUE] ELSE [nil |-> FALSE, to |-> ChainV(n - 1)]>>]
=====================================================================
