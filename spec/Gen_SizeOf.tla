--------------------------- MODULE Gen_SizeOf ---------------------------
(* MC + GEN for C20: TLC enumerates EVERY typed value tree (type t, content v) up to depth D     *)
(* over a reduced kind set with fan-out <= 2 - each is one state - checks the structural-sum     *)
(* laws of SizeOf!SizeD on it, and writes it as a driver case; the driver rebuilds the value     *)
(* with package reflect from that description and the resulting trace is validated by           *)
(* Trace_SizeOf.  Deeper types are drawn with RandomSubset.                                      *)
EXTENDS SizeOf, TLC, Json, IOUtils, CSV, Randomization, FiniteSets

CONSTANTS D, Sample
VARIABLES t, v
vars == <<t, v>>

Base == {[k |-> "bool"], [k |-> "int16"], [k |-> "int64"], [k |-> "uint"], [k |-> "uintptr"], [k |-> "complex128"], [k |-> "string"]}
KeyT == {[k |-> "int32"], [k |-> "string"]}
Seqs2(S) == {<<>>} \cup {<<a>> : a \in S} \cup {<<a, b>> : a \in S, b \in S}

RECURSIVE Types(_)
Types(d) ==
    IF d = 0 THEN Base
    ELSE LET Sub == Types(d - 1)
             Small == IF d >= 2 THEN RandomSubset(Sample, Sub) ELSE Sub       \* keep struct fan-out tractable
         IN Base \cup {[k |-> "iface"]}
            \cup {[k |-> "slice", e |-> x] : x \in Sub} \cup {[k |-> "ptr", e |-> x] : x \in Sub}
            \cup {[k |-> "array", n |-> n, e |-> x] : n \in {0, 2}, x \in Small}
            \cup {[k |-> "map", key |-> kt, e |-> x] : kt \in KeyT, x \in Small}
            \cup {[k |-> "struct", f |-> fs] : fs \in Seqs2(Small)}

RECURSIVE Vals(_, _)
Vals(ty, d) ==
    CASE ty.k \in Scalars -> {[x |-> 1]}
      [] ty.k = "string" -> {[n |-> 0, x |-> 1], [n |-> 5, x |-> 2]}
      [] ty.k = "slice"  -> {[nil |-> TRUE, el |-> <<>>]} \cup {[nil |-> FALSE, el |-> es] : es \in Seqs2(Vals(ty.e, d - 1))}
      [] ty.k = "array"  -> IF ty.n = 0 THEN {[el |-> <<>>]} ELSE {[el |-> <<a, b>>] : a \in Vals(ty.e, d - 1), b \in Vals(ty.e, d - 1)}
      [] ty.k = "map"    -> LET k1 == IF ty.key.k = "string" THEN [n |-> 9, x |-> 1] ELSE [x |-> 1]
                                k2 == IF ty.key.k = "string" THEN [n |-> 9, x |-> 2] ELSE [x |-> 2]
                            IN {[nil |-> TRUE, kv |-> <<>>], [nil |-> FALSE, kv |-> <<>>]}
                               \cup {[nil |-> FALSE, kv |-> << <<k1, a>> >>] : a \in Vals(ty.e, d - 1)}
                               \cup {[nil |-> FALSE, kv |-> << <<k1, a>>, <<k2, b>> >>] : a \in Vals(ty.e, d - 1), b \in Vals(ty.e, d - 1)}
      [] ty.k = "ptr"    -> {[nil |-> TRUE]} \cup {[nil |-> FALSE, to |-> a] : a \in Vals(ty.e, d - 1)}
      [] ty.k = "iface"  -> {[nil |-> TRUE]} \cup
                            (IF d <= 0 THEN {} ELSE UNION {{[nil |-> FALSE, dt |-> dt, dyn |-> a] : a \in Vals(dt, d - 1)} : dt \in Base})
      [] ty.k = "struct" -> IF Len(ty.f) = 0 THEN {[f |-> <<>>]}
                            ELSE IF Len(ty.f) = 1 THEN {[f |-> <<a>>] : a \in Vals(ty.f[1], d - 1)}
                            ELSE {[f |-> <<a, b>>] : a \in Vals(ty.f[1], d - 1), b \in Vals(ty.f[2], d - 1)}

Init == t \in (Types(D) \ {[k |-> "iface"]}) /\ v \in Vals(t, D)       \* an interface cannot be a top-level argument
Next == UNCHANGED vars
Spec == Init /\ [][Next]_vars

\* ---- laws of the structural sum on every enumerated tree
Laws ==
    /\ SizeD(t, v) >= 0
    /\ (t.k = "slice" => SizeD(t, v) = 24 + SumOver(Len(v.el), LAMBDA i : SizeD(t.e, v.el[i])))
    /\ (t.k = "ptr" /\ v.nil => SizeD(t, v) = 8)
    /\ (t.k = "ptr" /\ ~v.nil => SizeD(t, v) = 8 + SizeD(t.e, v.to))
    /\ (t.k = "struct" /\ Len(t.f) = 2 => SizeD(t, v) = SizeD(t.f[1], v.f[1]) + SizeD(t.f[2], v.f[2]))
    /\ (t.k = "map" => SizeD(t, v) >= 8 /\ (v.kv = <<>> => SizeD(t, v) = 8))
    /\ (t.k = "string" => SizeD(t, v) = 16 + v.n)
    \* the closed form of a linked list is the list spelled out as a tree
    /\ \A n \in 1..6 : \A e \in {"int8", "int32", "uint64"} :
          SizeD([k |-> "chain", n |-> n, e |-> [k |-> e]], [x |-> 0]) = SizeD(ChainT([k |-> e], n), ChainV(n))
\* every state is written out as a driver case (evaluated once per state, -workers 1)
Emit == CSVWrite("%1$s", <<ToJson([topnil |-> FALSE, t |-> t, v |-> v])>>, IOEnv.VERIF_GEN_OUT)
===========================================================================
