--------------------------- MODULE Trace_Bmtree ---------------------------
(* Trace validation of package bmtree (C03, C04, C05, C10) and of FromStr32/PathOf/PathsOf    *)
(* (C11).  One event = one batch of calls; it is accepted iff every recorded result is the one *)
(* the definition layer (modules Bmtree, Strings) gives.                                        *)
EXTENDS Bmtree, Strings, TraceIO

CONSTANT W      \* bits per bitmap word (Decode's bitmap)

VARIABLE l
Ev == Trace[l]
IsEvent(k) == l <= Len(Trace) /\ Ev.k = k /\ Ev.abn = "" /\ l' = l + 1

ValidT(t) == t >= 1 /\ t <= 2147483647
NodeOK(h, nd) == nd[1] >= 0 /\ nd[1] <= h /\ nd[2] >= 0 /\ nd[2] < P2(nd[1])

\* ---- C03: PathToIndexLoose / PathToIndex = pre-order rank among the stored nodes
P2IOK(in, o) ==
    LET t == in.T  h == HeightOf(t) IN
    /\ ValidT(t) /\ h <= 30
    /\ Len(o.loose) = Len(in.nodes) /\ Len(o.strict) = Len(in.nodes)
    /\ \A j \in DOMAIN in.nodes :
          LET nd == in.nodes[j]  x == Idx2(t, nd[1], nd[2]) IN
          /\ NodeOK(h, nd)
          /\ o.loose[j] = <<x, HasLevel(t, nd[1])>>
          /\ (HasLevel(t, nd[1]) = 1 => o.strict[j] = x)
TraceP2I == IsEvent("p2i") /\ P2IOK(Ev.in, Ev.out)

\* ---- C04: AllPaths = exactly the stored nodes with from <= word < to, strictly ascending
StoredHL(t, h, p) == WellFormedHL(h, p) /\ BitOf(t, LenOfHL(h, p)) = 1
AscHL(ps) == \A i \in 1..(Len(ps) - 1) : HLLess(ps[i], ps[i + 1])
HalfOf(a, b) == IF a >= 32768 THEN 2147483647 ELSE a * 65536 + b     \* upper half of a limb word, saturated
CountInWindow(t, h, from, to) ==
    LET fh == HalfOf(from[1], from[2])  th == HalfOf(to[1], to[2])
        inLevel(lv) ==
            LET lo == fh \div P2(h - lv)
                hi0 == th \div P2(h - lv)
                hi == IF hi0 > P2(lv) - 1 THEN P2(lv) - 1 ELSE hi0
            IN Cardinality({v \in lo..hi : LET w == Limbs(PathHL(h, lv, v)) IN LimbLeq(from, w) /\ LimbLess(w, to)})
        RECURSIVE Sum(_)
        Sum(lv) == IF lv > h THEN 0 ELSE (IF BitOf(t, lv) = 1 THEN inLevel(lv) ELSE 0) + Sum(lv + 1)
    IN Sum(0)
AllPathsOK(in, o) ==
    LET t == in.T  h == HeightOf(t)  ps == o.paths IN
    /\ ValidT(t) /\ h <= 30
    /\ \A i \in DOMAIN ps : /\ StoredHL(t, h, ps[i])
                            /\ LimbLeq(in.from, Limbs(ps[i])) /\ LimbLess(Limbs(ps[i]), in.to)
    /\ AscHL(ps)
    /\ Len(ps) = CountInWindow(t, h, in.from, in.to)
TraceAllPaths == IsEvent("allpaths") /\ AllPathsOK(Ev.in, Ev.out)

\* Decode = exactly the stored nodes whose index bit is 1 (words beyond len(bm) read as 0,
\* bits at or beyond bitmapSize ignored), ascending.  Completeness by counting: the index is a
\* bijection between stored nodes and 0..T-1 (MC_BmIndex).
DecodeOK(in, o) ==
    LET t == in.T  h == HeightOf(t)  ps == o.paths  s == ToSet(in.bm.ones) IN
    /\ ValidT(t) /\ h <= 30
    /\ \A i \in DOMAIN ps : /\ StoredHL(t, h, ps[i])
                            /\ Idx2(t, LenOfHL(h, ps[i]), ValOfHL(h, ps[i])) \in s
    /\ AscHL(ps)
    /\ Len(ps) = Cardinality({x \in s : x < t})
TraceDecode == IsEvent("decode") /\ DecodeOK(Ev.in, Ev.out)

\* encode a set of stored nodes with PathToIndex, decode: the same set, in pre-order
EncDecOK(in, o) ==
    LET t == in.T  h == HeightOf(t) IN
    /\ \A j \in DOMAIN in.nodes : NodeOK(h, in.nodes[j]) /\ BitOf(t, in.nodes[j][1]) = 1
    /\ ToSet(o.paths) = {PathHL(h, in.nodes[j][1], in.nodes[j][2]) : j \in DOMAIN in.nodes}
    /\ AscHL(o.paths)
TraceEncDec == IsEvent("encdec") /\ EncDecOK(Ev.in, Ev.out)

\* ---- C05: IndexToPath inverts PathToIndex on full trees
I2POK(in, o) ==
    LET h == in.h IN
    /\ h >= 0 /\ h <= 30
    /\ Len(o.paths) = Len(in.xs) /\ Len(o.back) = Len(in.xs)
    /\ \A j \in DOMAIN in.xs :
          LET x == in.xs[j]  nd == PathOfIndex(h, x) IN
          /\ x >= 0 /\ x <= 2 * (P2(h) - 1)
          /\ o.paths[j] = PathHL(h, nd[1], nd[2])
          /\ o.back[j] = x
TraceI2P == IsEvent("i2p") /\ I2POK(Ev.in, Ev.out)

\* ---- C10: path words are self-consistent and their numeric order is pre-order
Chars(bits) == [i \in 1..Len(bits) |-> 48 + bits[i]]
\* (a case may give every node its own tree height, "hs": calls on trees of different heights in a row; the
\* numeric order is only compared between nodes of one height, so such a case lists no pairs)
PathWOK(in, o) ==
    /\ in.h >= 0 /\ in.h <= 32
    /\ ("hs" \in DOMAIN in => Len(in.hs) = Len(in.nodes) /\ Len(in.pairs) = 0)
    /\ \A j \in DOMAIN in.nodes :
          LET b == in.nodes[j]  w == ToSet(o.w[j])
              h == IF "hs" \in DOMAIN in THEN in.hs[j] ELSE in.h IN
          /\ h >= 0 /\ h <= 32
          /\ Len(b) <= h
          /\ w = PathOnes(h, b)
          /\ o.len[j] = Len(b)
          /\ (Len(b) >= 1 => o.height[j] = h)
          /\ ToSet(o.pbits[j]) = {x - 32 : x \in {y \in w : y >= 32}}
          /\ ToSet(o.pmask[j]) = {y \in w : y < 32}
          /\ o.str[j] = Chars(b)
    /\ Len(o.less) = Len(in.pairs)
    /\ \A j \in DOMAIN in.pairs :
          LET a == in.pairs[j][1] + 1  b == in.pairs[j][2] + 1 IN
          /\ o.less[j] = PreLess(in.nodes[a], in.nodes[b])
          /\ o.less[j] = OnesLess(ToSet(o.w[a]), ToSet(o.w[b]))
TracePathW == IsEvent("pathw") /\ PathWOK(Ev.in, Ev.out)

\* ---- C11: FromStr32 / PathOf / PathsOf
Clamp(x, lo, hi) == IF x < lo THEN lo ELSE IF x > hi THEN hi ELSE x
KeyBits(s, from, w) == LET k == Clamp(NBits(s) - from, 0, w) IN [i \in 1..k |-> SBit(s, from + i)]
FromStrOK(in, o) ==
    LET b == KeyBits(in.s, in.from, in.w)  k == Len(b) IN
    /\ in.from >= 0 /\ in.w >= 0 /\ in.w <= 32
    /\ (in.direct => /\ o.k = k                      \* FromStr32 itself (called when from + w fits int32)
                      /\ ToSet(o.val) = {in.w - i : i \in {j \in 1..k : b[j] = 1}})
    /\ ToSet(o.path) = PathOnes(in.w, b)
    /\ o.pstr = Chars(b)
TraceFromStr == IsEvent("fromstr32") /\ FromStrOK(Ev.in, Ev.out)

PathsOfOK(in, o) ==
    LET mapped == [i \in 1..Len(in.keys) |-> PathOnes(in.h, KeyBits(in.keys[i], in.from, in.h))]
        keep == SelectSeq([i \in 1..Len(in.keys) |-> i], LAMBDA i : ~in.dedup \/ i = 1 \/ mapped[i] # mapped[i - 1])
    IN /\ in.from >= 0 /\ in.h >= 0 /\ in.h <= 32
       /\ Len(o.paths) = Len(keep)
       /\ \A j \in DOMAIN keep : ToSet(o.paths[j]) = mapped[keep[j]]
TracePathsOf == IsEvent("pathsof") /\ PathsOfOK(Ev.in, Ev.out)

TraceInit == l = 1
TraceNext == TraceP2I \/ TraceAllPaths \/ TraceDecode \/ TraceEncDec \/ TraceI2P \/ TracePathW
             \/ TraceFromStr \/ TracePathsOf
TraceSpec == TraceInit /\ [][TraceNext]_l
============================================================================
