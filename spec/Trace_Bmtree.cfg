SPECIFICATION TraceSpec
CONSTANTS
  W = 64
  BB = 8
POSTCONDITION TraceAccepted
CHECK_DEADLOCK FALSE
