--------------------------- MODULE Trace_SizeOf ---------------------------
(* Trace validation of size.Of / size.Stat (C20) against SizeOf!SizeD. *)
EXTENDS SizeOf, TraceIO

VARIABLE l
Ev == Trace[l]
IsEvent(k) == l <= Len(Trace) /\ Ev.k = k /\ Ev.abn = "" /\ l' = l + 1

TraceSize ==
    /\ IsEvent("size")
    /\ LET want == IF Ev.in.topnil THEN 0 ELSE SizeD(Ev.in.t, Ev.in.v) IN
       /\ Ev.out.of = want
       /\ (~Ev.in.topnil => Ev.out.stat = want)      \* the first line of Stat reports the same number

\* size.Stat's shape (extra X05): every line's indentation and number
TraceStat ==
    /\ IsEvent("stat")
    /\ Ev.in.depth >= 0
    /\ Ev.out.lines = StatD(Ev.in.t, Ev.in.v, Ev.in.depth, Ev.in.maxItem)

TraceInit == l = 1
TraceNext == TraceSize \/ TraceStat
TraceSpec == TraceInit /\ [][TraceNext]_l
============================================================================
