--------------------------- MODULE Trace_SizeOf ---------------------------
(* Trace validation of size.Of / size.Stat (C20) against SizeOf!SizeD. *)
EXTENDS SizeOf, TraceIO

VARIABLE l
Ev == Trace[l]
IsEvent(k) == l <= Len(Trace) /\ Ev.k = k /\ Ev.abn = "" /\ l' = l + 1

TraceSize ==
    /\ IsEvent("size")
    /\ LET want == IF Ev.in.topnil THEN 0 ELSE SizeD(Ev.in.t, Ev.in.v) IN
       /\ Ev.out.of = want
       /\ (~Ev.in.topnil => Ev.out.stat = want)      \* the first line of Stat reports the same number

TraceInit == l = 1
TraceNext == TraceSize
TraceSpec == TraceInit /\ [][TraceNext]_l
============================================================================
