--------------------------- MODULE Trace_TailBitmapFar ---------------------------
(* C15 for positions 2^31 bits and more beyond the Offset (a stored tail of 256 MiB and more).    *)
(* Such distances do not fit TLC's integers, so a position is logged and kept as a pair <<q, r>>  *)
(* with  idx - o0 = q * 2^20 + r,  0 <= r < 2^20.  These histories never touch word 0 (every      *)
(* position is >= W), so no Compact happens and Offset stays where New put it: by TailBitmap!SetF *)
(* a Set beyond the head word only adds the bit and grows the words to hold it                    *)
(* (MC_TailBitmap!FarFormAgrees checks exactly that form against SetF at the small scale).        *)
(* State: far = the set of pairs passed to Set; the number of words is taken from the log and     *)
(* required to hold every set bit.                                                                *)
EXTENDS TraceIO, FiniteSets

CONSTANTS W, CH          \* word width (64), chunk (2^20, a multiple of W)
VARIABLES l, far, fnw
fvars == <<l, far, fnw>>

Ev == Trace[l]
IsEvent(k) == l <= Len(Trace) /\ Ev.k = k /\ Ev.abn = "" /\ l' = l + 1

WellFormed(p) == p[1] >= 0 /\ p[2] >= 0 /\ p[2] < CH /\ (p[1] > 0 \/ p[2] >= W)      \* beyond the head word
WordOf(p) == p[1] * (CH \div W) + p[2] \div W          \* index of the word that holds p (below 2^27)
Holds(n, p) == WordOf(p) < n

TraceFarNew == /\ IsEvent("FarNew") /\ far' = {} /\ fnw' = 0
               /\ Ev.st.off = 0 /\ Ev.st.nw = 0 /\ Ev.omod = 0
TraceFarSet ==
    /\ IsEvent("FarSet") /\ WellFormed(Ev.p)
    /\ far' = far \cup {Ev.p}
    /\ fnw' = Ev.st.nw
    /\ Ev.st.off = 0                                             \* Offset has not moved (word 0 is not full)
    /\ Ev.st.nw >= fnw /\ \A p \in far' : Holds(Ev.st.nw, p)      \* every set bit is stored
\* Get1 / Get at a position inside the stored words: 1 exactly for the positions that were set (no position
\* below o0 + W is asked, none there was set)
TraceFarGet1 ==
    /\ IsEvent("FarGet1") /\ WellFormed(Ev.p) /\ Holds(fnw, Ev.p)
    /\ ToSet(Ev.r) = (IF Ev.p \in far THEN {0} ELSE {})
    /\ Ev.st.off = 0 /\ Ev.st.nw = fnw /\ UNCHANGED <<far, fnw>>
TraceFarGet ==
    /\ IsEvent("FarGet") /\ WellFormed(Ev.p) /\ Holds(fnw, Ev.p)
    /\ ToSet(Ev.r) = (IF Ev.p \in far THEN {Ev.p[2] % W} ELSE {})
    /\ Ev.st.off = 0 /\ Ev.st.nw = fnw /\ UNCHANGED <<far, fnw>>

TraceInit == l = 1 /\ far = {} /\ fnw = 0
TraceNext == TraceFarNew \/ TraceFarSet \/ TraceFarGet1 \/ TraceFarGet
TraceSpec == TraceInit /\ [][TraceNext]_fvars
===================================================================================
