--------------------------- MODULE PbFrame ---------------------------
(* pbcmpl (pbcmpl/pbcmpl.go, header.go): a fixed header in front of an encoded message.        *)
(*   frame  = Header(ver, H, Len(body)) \o body                                                *)
(*   header = version padded with NULs to VL bytes \o LE(H, FW) \o LE(Len(body), FW)            *)
(* Real code: VL = 16, FW = 8, H = 32.  The message encoding is opaque (protobuf is trusted).   *)
(*                                                                                             *)
(* State: wire  the bytes of the stream                                                        *)
(*        rpos  bytes consumed so far by Unmarshal / ReadHeader                                *)
(*        good  offsets at which a complete frame written by a successful Marshal starts,      *)
(*              with the kind of message it carries                                            *)
(* Environment: the destination io.Writer (accepts k bytes of a Write, may fail) and the       *)
(* source io.Reader (delivers `avail` more bytes, then ends with EOF or fails).                *)
EXTENDS Integers, Sequences

CONSTANTS VL, FW, Inf
H == VL + 2 * FW

VARIABLES wire, rpos, good
pbvars == <<wire, rpos, good>>

PMin(a, b) == IF a < b THEN a ELSE b
Zeros(n) == [i \in 1..n |-> 0]
Pad(ver) == ver \o Zeros(VL - Len(ver))
\* little-endian field of a number below 2^31
LE(n) == [i \in 1..FW |-> IF i <= 4 THEN (n \div (256 ^ (i - 1))) % 256 ELSE 0]
Header(ver, hsize, bsize) == Pad(ver) \o LE(hsize) \o LE(bsize)
Frame(ver, body) == Header(ver, H, Len(body)) \o body

\* a field read back: negative as int64 (top bit set), too large to matter (Inf), or its value
FieldNeg(f) == f[FW] >= 128
FieldVal(f) == IF \E i \in 4..FW : f[i] # 0 THEN Inf
               ELSE LET g(i) == IF i <= FW THEN f[i] ELSE 0 IN g(1) + 256 * g(2) + 65536 * g(3)
\* version: the VL bytes with trailing NULs stripped
RECURSIVE VerStr(_)
VerStr(v) == IF Len(v) > 0 /\ v[Len(v)] = 0 THEN VerStr(SubSeq(v, 1, Len(v) - 1)) ELSE v
ValidVer(v) == Len(v) <= VL /\ (Len(v) > 0 => v[Len(v)] # 0)

\* io.ReadFull: `got` of `need` bytes arrived before the source ended with `fault`
RFErr(got, need, fault) ==
    IF got = need THEN "nil" ELSE IF fault = "inj" THEN "inj" ELSE IF got = 0 THEN "EOF" ELSE "UnexpectedEOF"

Rest == SubSeq(wire, rpos + 1, Len(wire))

\* ---- Marshal: two writes, header then body; k1,e1 / k2,e2 are what the writer does with them
\* (e = it reports an error after accepting k bytes; no error means everything was accepted)
MarshalResult(ver, body, k1, e1, k2, e2) ==
    IF e1 THEN [n |-> k1, err |-> "inj", out |-> SubSeq(Frame(ver, body), 1, k1)]
    ELSE IF e2 THEN [n |-> H + k2, err |-> "inj", out |-> SubSeq(Frame(ver, body), 1, H + k2)]
    ELSE [n |-> H + Len(body), err |-> "nil", out |-> Frame(ver, body)]

Marshal(ver, body, kind, k1, e1, k2, e2) ==
    LET r == MarshalResult(ver, body, k1, e1, k2, e2) IN
    /\ wire' = wire \o r.out
    /\ good' = IF r.err = "nil" THEN good \cup {<<Len(wire), kind>>} ELSE good
    /\ UNCHANGED rpos

\* ---- Marshal, independent of how the implementation splits the frame into Write calls (today: header, then
\* body).  c is the sequence of Write calls it made: [offered, k (accepted), e (the writer reported an error)].
\* The calls offer consecutive pieces of the frame; only the last one may fail or be accepted partly.
RECURSIVE SumField(_, _, _)
SumField(c, i, off) == IF i > Len(c) THEN 0 ELSE (IF off THEN c[i].offered ELSE c[i].k) + SumField(c, i + 1, off)
MarshalAnyOK(ver, body, c, obs) ==
    LET frame == Frame(ver, body)
        nc == Len(c)
        failed == nc > 0 /\ c[nc].e
        n == SumField(c, 1, FALSE)
    IN /\ \A i \in 1..nc : /\ c[i].k >= 0 /\ c[i].k <= c[i].offered
                            /\ (i < nc => ~c[i].e /\ c[i].k = c[i].offered)
       /\ (~failed => SumField(c, 1, TRUE) = Len(frame) /\ n = Len(frame))     \* the whole frame was offered and accepted
       /\ (failed => SumField(c, 1, TRUE) <= Len(frame))
       /\ obs.n = n /\ obs.err = (IF failed THEN "inj" ELSE "nil")
       /\ obs.written = SubSeq(frame, 1, n)                                    \* exactly the first n bytes of the frame
MarshalAny(ver, body, kind, c) ==
    LET n == SumField(c, 1, FALSE)  failed == Len(c) > 0 /\ c[Len(c)].e IN
    /\ wire' = wire \o SubSeq(Frame(ver, body), 1, n)
    /\ good' = IF ~failed THEN good \cup {<<Len(wire), kind>>} ELSE good
    /\ UNCHANGED rpos

\* ---- Unmarshal on the rest of the stream, of which `avail` bytes arrive before `fault`.
\* The outcome is a relation: obs = [n, err, ver, body] is acceptable iff UnmarshalOK.
UnmarshalOK(data, avail, fault, kind, isGood, obs) ==
    IF avail < H
    THEN obs.n = avail /\ obs.err = RFErr(avail, H, fault)
    ELSE LET ver == VerStr(SubSeq(data, 1, VL))
             hs  == SubSeq(data, VL + 1, VL + FW)
             bs  == SubSeq(data, VL + FW + 1, H)
         IN IF hs # LE(H)
            THEN obs.n = H /\ obs.err = "InvalidHeaderSize"
            ELSE IF FieldNeg(bs)                      \* >= 2^63: the property fixes no particular error
            THEN obs.err # "nil" /\ obs.n >= H /\ obs.n <= avail
            ELSE LET need == FieldVal(bs)
                     got  == PMin(need, avail - H)
                 IN IF got < need
                    THEN /\ obs.n = H + got
                         /\ \/ obs.err = RFErr(got, need, fault)
                            \/ (got = 0 /\ fault = "EOF" /\ obs.err = "UnexpectedEOF")   \* cut exactly after the header
                    ELSE /\ obs.n = H + need
                         /\ \/ /\ obs.err = "nil" /\ obs.ver = ver /\ obs.body = SubSeq(data, H + 1, H + need)
                            \/ /\ obs.err = "proto" /\ kind # "raw" /\ ~isGood     \* body not parsable as that message type
Unmarshal(avail, fault, kind, obs) ==
    /\ UnmarshalOK(Rest, PMin(avail, Len(Rest)), IF avail >= Len(Rest) THEN "EOF" ELSE fault, kind, <<rpos, kind>> \in good, obs)
    /\ rpos' = rpos + obs.n
    /\ UNCHANGED <<wire, good>>

\* ---- ReadHeader
ReadHeaderOK(data, avail, fault, obs) ==
    IF avail < H
    THEN obs.n = avail /\ obs.err = RFErr(avail, H, fault)
    ELSE /\ obs.n = H /\ obs.err = "nil"
         /\ obs.ver = VerStr(SubSeq(data, 1, VL))
         /\ LET hs == SubSeq(data, VL + 1, VL + FW)  bs == SubSeq(data, VL + FW + 1, H) IN
            /\ (~FieldNeg(hs) /\ FieldVal(hs) < Inf => obs.hsize = FieldVal(hs))
            /\ (~FieldNeg(bs) /\ FieldVal(bs) < Inf => obs.bsize = FieldVal(bs))
ReadHeader(avail, fault, obs) ==
    /\ ReadHeaderOK(Rest, PMin(avail, Len(Rest)), IF avail >= Len(Rest) THEN "EOF" ELSE fault, obs)
    /\ rpos' = rpos + obs.n
    /\ UNCHANGED <<wire, good>>

\* read the same stream again from its start (a fresh reader over the same bytes)
Rewind == rpos' = 0 /\ UNCHANGED <<wire, good>>

\* a fresh stream with given bytes
Stream(bytes) == wire' = bytes /\ rpos' = 0 /\ good' = {}
======================================================================
