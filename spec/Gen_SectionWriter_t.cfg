SPECIFICATION Spec
CONSTANTS
  Inf = 1073741824
  Bases = {0, 7, 4096}
  Sizes = {0, 1, 10, 64}
  Depth = 12
INVARIANT Inv
CHECK_DEADLOCK FALSE
