--------------------------- MODULE MC_Builder ---------------------------
(* Scaled exhaustive check of the Builder part of C12: after any sequence of Extend calls whose *)
(* shifted positions are ascending, the Builder holds exactly the bitmap Of builds from the      *)
(* positions shifted by the running sum of the preceding sizes, and Offset is that sum.          *)
EXTENDS Builder, FiniteSetsExt, TLC

CONSTANTS MaxPos, MaxSize, MaxSteps

VARIABLES sum, allpos, asc, steps, pureExt
vars == <<offset, nw, ones, sum, allpos, asc, steps, pureExt>>

\* all ascending position lists over 0..MaxPos with at most 2 elements
Lists == {<<>>} \cup {<<a>> : a \in 0..MaxPos} \cup {<<a, b>> \in (0..MaxPos) \X (0..MaxPos) : a < b}

Init == offset = 0 /\ nw = 0 /\ ones = {} /\ sum = 0 /\ allpos = {} /\ asc = TRUE /\ steps = 0 /\ pureExt = TRUE

DoExtend(L, size) ==
    /\ Extend(L, size)
    /\ sum' = sum + size
    /\ allpos' = allpos \cup {offset + L[i] : i \in DOMAIN L}
    /\ asc' = (asc /\ (Len(L) > 0 /\ allpos # {} => offset + L[1] > Max(allpos)))
    /\ UNCHANGED pureExt
DoSet(pos, val) ==
    /\ Set(pos, val)
    /\ pureExt' = FALSE /\ UNCHANGED <<sum, allpos, asc>>

Next == /\ steps < MaxSteps /\ steps' = steps + 1
        /\ \/ \E L \in Lists, size \in 0..MaxSize : DoExtend(L, size)
           \/ \E pos \in 0..MaxPos, val \in 0..3 : DoSet(pos, val)
Spec == Init /\ [][Next]_vars

\* what Of(positions, n) builds (Bitmap!OfD restated on sets)
OfWords(P, n) == BCeilDiv(BMax(BMax(n, IF P = {} THEN 0 ELSE Max(P) + 1), 0), W)

ExtendsAreOf == (pureExt /\ asc) => /\ ones = allpos /\ offset = sum /\ nw = OfWords(allpos, sum)
Inv == EnoughWords /\ ExtendsAreOf
OffsetMonotone == [][offset' >= offset]_vars
NeverClears == [][ones \subseteq ones']_vars
===========================================================================
