--------------------------- MODULE TailBitmap ---------------------------
(* bitmap.TailBitmap (bitmap/tailbitmap.go): a bitmap whose bits below Offset are all 1 and  *)
(* of which only the tail is stored.  One action per public method; the linearization      *)
(* point of each is the return of the call (the library is sequential).                     *)
(*                                                                                          *)
(*   W   word width (64 in the code)                                                        *)
(*   RT  reclaim threshold in words (1024 in the code)                                      *)
(*                                                                                          *)
(* State: offset   = tb.Offset                                                              *)
(*        nw       = len(tb.Words)                                                          *)
(*        bits     = absolute positions of the 1-bits stored in tb.Words                    *)
(*        reclaimed= tb.reclaimed (unexported; only steers the discarded reallocation)      *)
EXTENDS Integers, FiniteSets

CONSTANTS W, RT

VARIABLES offset, nw, bits, reclaimed
tbvars == <<offset, nw, bits, reclaimed>>

Full(o, b) == \A j \in o..(o + W - 1) : j \in b

\* Compact's loop: drop leading all-ones words (k of them).
RECURSIVE LeadingFull(_, _, _)
LeadingFull(o, n, b) == IF n > 0 /\ Full(o, b) THEN 1 + LeadingFull(o + W, n - 1, b) ELSE 0
Compacted(o, n, b) ==
    LET k == LeadingFull(o, n, b)
    IN <<o + k * W, n - k, IF k = 0 THEN b ELSE {x \in b : x >= o + k * W}>>

\* What the queries return in the current state.
Stored(j)  == j < offset + W * nw
Get1Val(j) == IF j < offset THEN 1 ELSE IF j \in bits THEN 1 ELSE 0
\* Get returns the bit in place: the set of bit positions of the returned word.
GetVal(j)  == IF Get1Val(j) = 1 THEN {j % W} ELSE {}

New(o) ==
    /\ offset' = o /\ nw' = 0 /\ bits' = {} /\ reclaimed' = o

\* The tail of Compact: the code allocates a new slice when the threshold is crossed and then
\* discards it (named deviation: only the bookkeeping variable changes).
DoCompact(o, n, b) ==
    LET c == Compacted(o, n, b) IN
    /\ offset' = c[1] /\ nw' = c[2] /\ bits' = c[3]
    /\ reclaimed' = IF c[1] - reclaimed >= RT * W THEN c[1] ELSE reclaimed

Set(idx) ==
    IF idx < offset
    THEN UNCHANGED tbvars
    ELSE LET wi == (idx - offset) \div W
             n1 == IF wi >= nw THEN wi + 1 ELSE nw
             b1 == bits \cup {idx}
         IN IF wi = 0
            THEN DoCompact(offset, n1, b1)
            ELSE /\ nw' = n1 /\ bits' = b1 /\ UNCHANGED <<offset, reclaimed>>

Compact == DoCompact(offset, nw, bits)

\* The same transitions as functions on <<offset, nw, bits, reclaimed>> (used to compose macro-steps
\* such as "fill a word" in behaviour generation; MC_TailBitmap checks they agree with the actions).
CompactF(st) == LET c == Compacted(st[1], st[2], st[3])
                IN <<c[1], c[2], c[3], IF c[1] - st[4] >= RT * W THEN c[1] ELSE st[4]>>
SetF(st, idx) ==
    IF idx < st[1] THEN st
    ELSE LET wi == (idx - st[1]) \div W
             n1 == IF wi >= st[2] THEN wi + 1 ELSE st[2]
             s1 == <<st[1], n1, st[3] \cup {idx}, st[4]>>
         IN IF wi = 0 THEN CompactF(s1) ELSE s1

\* Macro-step "Set(lo); Set(lo+1); ...; Set(hi-1)" for a range that lies entirely beyond the head word
\* (lo >= offset + W): no call of it touches word 0, so no compaction happens in between and the result has a
\* closed form.  Used to validate histories that fill thousands of words before one compaction drops them all
\* (one trace event instead of 10^5).  MC_TailBitmap.RangeFormAgrees checks it against the fold of SetF.
RangeOK(st, lo, hi) == lo >= st[1] + W /\ lo < hi
SetRangeF(st, lo, hi) ==
    LET wi == (hi - 1 - st[1]) \div W
    IN <<st[1], IF wi >= st[2] THEN wi + 1 ELSE st[2], st[3] \cup (lo..(hi - 1)), st[4]>>
RECURSIVE SetFold(_, _, _)
SetFold(st, lo, hi) == IF lo >= hi THEN st ELSE SetFold(SetF(st, lo), lo + 1, hi)

\* Structural invariants of the object itself.
Aligned   == offset % W = 0
InRange   == \A x \in bits : x >= offset /\ x < offset + W * nw
=========================================================================
