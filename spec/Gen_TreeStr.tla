--------------------------- MODULE Gen_TreeStr ---------------------------
(* GEN for package tree: TLC enumerates every tree of depth <= D with fan-out <= 2 over small     *)
(* sets of ids, infos and leaf values; each is written as a driver case.                           *)
EXTENDS TreeStr, Json, IOUtils, CSV

CONSTANT D
VARIABLE tr
RECURSIVE Trees(_, _)
\* uid: a unique node name derived from the position in the tree (the driver reports it in DepthFirst)
Trees(d, uid) ==
    LET Leafs == {[uid |-> uid, id |-> id, info |-> info, leaf |-> lf, val |-> 7, kids |-> <<>>] :
                      id \in {"", "a"}, info \in {"", "+1"}, lf \in BOOLEAN}
    IN IF d = 0 THEN Leafs
       ELSE Leafs
            \cup {[uid |-> uid, id |-> id, info |-> "", leaf |-> FALSE, val |-> 0, kids |-> << [label |-> "x", node |-> k1] >>] :
                      id \in {"", "b"}, k1 \in Trees(d - 1, uid \o "x")}
            \cup {[uid |-> uid, id |-> "c", info |-> "+2", leaf |-> FALSE, val |-> 0,
                   kids |-> << [label |-> "x", node |-> k1], [label |-> "yy", node |-> k2] >>] :
                      k1 \in Trees(d - 1, uid \o "x"), k2 \in Trees(d - 1, uid \o "y")}
Init == tr \in Trees(D, "r")
Next == UNCHANGED tr
Spec == Init /\ [][Next]_tr
Emit == CSVWrite("%1$s", <<ToJson([tree |-> tr])>>, IOEnv.VERIF_GEN_OUT)
Sane == Len(Render(tr, "")) = Len(PostOrder("", "", tr))      \* one line per node
===========================================================================
