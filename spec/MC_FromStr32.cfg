SPECIFICATION Spec
CONSTANTS
  BB = 2
  MaxLen = 5
INVARIANTS AlgIsDef HighBitsZero
CHECK_DEADLOCK FALSE
