--------------------------- MODULE BuilderProof ---------------------------
(* TLAPS: the Builder part of C12 for word width 64 and UNBOUNDED positions and sizes: after any   *)
(* sequence of Extend and Set calls the Builder has enough words for every bit it holds, and while *)
(* only Extend was called with ascending shifted positions it holds exactly what Of builds from    *)
(* the concatenation: the listed bits, Offset = the sum of the sizes, and                          *)
(* ceil(max(sum of sizes, last position + 1) / 64) words.                                          *)
(* Same machine as BuilderInd.tla (Apalache, bounded universe) with the largest position kept in   *)
(* a variable (top = -1 when there is none) instead of a CHOOSE over a finite set.                 *)
EXTENDS Integers, TLAPS

W == 64
VARIABLES offset, nw, ones, sum, allpos, top, pure
vars == <<offset, nw, ones, sum, allpos, top, pure>>

CeilDiv(a) == (a + W - 1) \div W
MaxI(a, b) == IF a > b THEN a ELSE b
OfWords(t, n) == CeilDiv(MaxI(MaxI(n, t + 1), 0))

\* last is the largest element of P (-1 for the empty segment), low its smallest
IsTop(P, last) == IF P = {} THEN last = -1 ELSE last \in P /\ \A p \in P : p <= last
IsLow(P, low)  == IF P = {} THEN low = 0 ELSE low \in P /\ \A p \in P : p >= low

Init == offset = 0 /\ nw = 0 /\ ones = {} /\ sum = 0 /\ allpos = {} /\ top = -1 /\ pure = TRUE

Extend(P, size, last, low) ==
    LET end == IF last >= size THEN offset + last + 1 ELSE offset + size
        shifted == {offset + p : p \in P}
    IN /\ IsTop(P, last) /\ IsLow(P, low)
       /\ nw' = MaxI(nw, CeilDiv(end))
       /\ ones' = ones \cup shifted
       /\ offset' = offset + size
       /\ sum' = sum + size
       /\ allpos' = allpos \cup shifted
       /\ pure' = (pure /\ (P # {} => offset + low > top))
       /\ top' = IF P = {} THEN top ELSE MaxI(top, offset + last)

SetBit(pos, val) ==
    /\ nw' = MaxI(nw, pos \div W + 1)
    /\ ones' = (IF val = 1 THEN ones \cup {pos} ELSE ones)
    /\ offset' = MaxI(offset, pos + 1)
    /\ pure' = FALSE /\ UNCHANGED <<sum, allpos, top>>

Next == \/ \E P \in SUBSET Nat, size \in Nat, last \in Int, low \in Nat : Extend(P, size, last, low)
        \/ \E pos \in Nat, val \in {0, 1} : SetBit(pos, val)
Spec == Init /\ [][Next]_vars

Inv ==
    /\ offset \in Nat /\ nw \in Nat /\ sum \in Nat /\ top \in Int /\ top >= -1 /\ pure \in BOOLEAN
    /\ ones \in SUBSET Nat /\ allpos \in SUBSET Nat
    /\ \A x \in ones : x < W * nw                                             \* enough words for every bit
    /\ \A x \in allpos : x <= top
    /\ (pure => /\ ones = allpos /\ offset = sum /\ nw = OfWords(top, sum))   \* Extends build what Of builds

THEOREM InitInv == Init => Inv
  BY DEF Init, Inv, OfWords, CeilDiv, MaxI, W

THEOREM StepInv == Inv /\ [Next]_vars => Inv'
<1> SUFFICES ASSUME Inv, [Next]_vars PROVE Inv'
  OBVIOUS
<1>1. ASSUME NEW P \in SUBSET Nat, NEW size \in Nat, NEW last \in Int, NEW low \in Nat, Extend(P, size, last, low) PROVE Inv'
  <2> DEFINE end == IF last >= size THEN offset + last + 1 ELSE offset + size
             shifted == {offset + p : p \in P}
  <2>1. /\ IsTop(P, last) /\ IsLow(P, low)
        /\ nw' = MaxI(nw, CeilDiv(end)) /\ ones' = ones \cup shifted /\ offset' = offset + size /\ sum' = sum + size
        /\ allpos' = allpos \cup shifted /\ pure' = (pure /\ (P # {} => offset + low > top))
        /\ top' = IF P = {} THEN top ELSE MaxI(top, offset + last)
    BY <1>1 DEF Extend
  <2>2. last >= -1 /\ \A p \in P : p <= last /\ p >= 0
    BY <2>1 DEF IsTop
  <2>3. end \in Nat /\ end >= offset + last + 1 /\ end >= offset + size /\ (end = offset + last + 1 \/ end = offset + size)
    BY <2>2 DEF Inv
  <2>4. CeilDiv(end) \in Nat /\ W * CeilDiv(end) >= end
    BY <2>3 DEF CeilDiv, W
  <2>5. nw' \in Nat /\ nw' >= nw /\ W * nw' >= end
    BY <2>1, <2>4 DEF MaxI, Inv, W
  <2>6. \A x \in shifted : x \in Nat /\ x < W * nw' /\ x <= offset + last
    BY <2>2, <2>3, <2>5 DEF Inv, W
  <2>7. \A x \in ones' : x < W * nw'
    BY <2>1, <2>5, <2>6 DEF Inv, W
  <2>8. top' \in Int /\ top' >= -1 /\ top' >= top /\ \A x \in allpos' : x <= top'
    BY <2>1, <2>2, <2>6 DEF Inv, MaxI
  <2>9. ASSUME pure' PROVE ones' = allpos' /\ offset' = sum' /\ nw' = OfWords(top', sum')
    <3>1. pure /\ (P # {} => offset + low > top)
      BY <2>9, <2>1
    <3>2. ones = allpos /\ offset = sum /\ nw = OfWords(top, sum)
      BY <3>1 DEF Inv
    <3>3. CASE P = {}
      <4>1. last = -1 /\ top' = top /\ end = offset + size
        BY <3>3, <2>1 DEF IsTop, Inv
      <4> QED BY <4>1, <3>2, <2>1 DEF OfWords, CeilDiv, MaxI, Inv, W
    <3>4. CASE P # {}
      <4>1. low \in P /\ low <= last /\ offset + last > top /\ top' = offset + last
        BY <3>4, <3>1, <2>1, <2>2 DEF IsLow, IsTop, MaxI, Inv
      <4> QED BY <4>1, <3>2, <2>1, <2>3 DEF OfWords, CeilDiv, MaxI, Inv, W
    <3> QED BY <3>3, <3>4
  <2> QED BY <2>1, <2>5, <2>6, <2>7, <2>8, <2>9 DEF Inv
<1>2. ASSUME NEW pos \in Nat, NEW val \in {0, 1}, SetBit(pos, val) PROVE Inv'
  <2>1. pos \div W \in Nat /\ W * (pos \div W + 1) > pos
    BY DEF W
  <2> QED BY <1>2, <2>1 DEF SetBit, Inv, MaxI, W
<1>3. ASSUME UNCHANGED vars PROVE Inv'
  BY <1>3 DEF Inv, vars
<1> QED BY <1>1, <1>2, <1>3 DEF Next

THEOREM Safety == Spec => []Inv
  BY InitInv, StepInv, PTL DEF Spec
=============================================================================
