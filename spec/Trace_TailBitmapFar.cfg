SPECIFICATION TraceSpec
CONSTANTS
  W = 64
  CH = 1048576
POSTCONDITION TraceAccepted
CHECK_DEADLOCK FALSE
