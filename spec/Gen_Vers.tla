--------------------------- MODULE Gen_Vers ---------------------------
(* GEN for package vers: TLC enumerates versions x specs over small sets (every operator, every   *)
(* ordering of two versions incl. pre-releases, 9 vs 10 in one component); every state becomes a   *)
(* driver case.  Laws of the definition are checked on every enumerated state.                      *)
EXTENDS Vers, Json, IOUtils, CSV, TLC

VARIABLES v, spec
vars == <<v, spec>>

Nums == {0, 1, 9, 10}
Vs == {<<a, b, c, p>> : a \in {0, 1, 10}, b \in {0, 9, 10}, c \in {0, 2}, p \in {0, 1, 2}}
VsSmall == {<<1, 0, 0, 0>>, <<1, 9, 0, 0>>, <<1, 10, 0, 0>>, <<1, 10, 2, 1>>, <<1, 10, 2, 2>>, <<10, 0, 0, 0>>, <<0, 9, 2, 0>>}
Cs(V) == {<<op, w>> : op \in Ops, w \in V}
CsSmall == {<<op, w>> : op \in {"<", ">=", "=", "!="}, w \in {<<1, 9, 0, 0>>, <<1, 10, 2, 1>>, <<1, 10, 2, 0>>, <<10, 0, 0, 0>>}}

Init ==
    \/ v \in Vs /\ spec \in {<< <<c>> >> : c \in Cs(VsSmall)}                                   \* one comparator
    \/ v \in VsSmall /\ spec \in {<< <<c1, c2>> >> : c1 \in CsSmall, c2 \in CsSmall}           \* a conjunction
    \/ v \in VsSmall /\ spec \in {<< <<c1>>, <<c2>> >> : c1 \in CsSmall, c2 \in CsSmall}       \* a disjunction
    \/ v \in VsSmall /\ spec \in {<< <<c1, c2>>, <<c3>> >> : c1 \in CsSmall, c2 \in CsSmall, c3 \in {<<"=", <<1, 0, 0, 0>>>>, <<"<", <<1, 9, 0, 0>>>>}}
Next == UNCHANGED vars
Spec == Init /\ [][Next]_vars

Neg(op) == CASE op = "<" -> ">=" [] op = ">=" -> "<" [] op = ">" -> "<=" [] op = "<=" -> ">" [] op = "=" -> "!=" [] op = "!=" -> "="
Laws ==
    /\ VCmp(v, v) = 0
    /\ \A i \in DOMAIN spec : \A j \in DOMAIN spec[i] :
          LET c == spec[i][j] IN
          /\ Sat(v, c) # Sat(v, <<Neg(c[1]), c[2]>>)                  \* every operator has its complement
          /\ VCmp(v, c[2]) = -VCmp(c[2], v)                           \* antisymmetry
    /\ (Len(spec) = 1 /\ Len(spec[1]) = 1 => CheckD(v, spec) = Sat(v, spec[1][1]))
Emit == CSVWrite("%1$s", <<ToJson([v |-> v, spec |-> spec])>>, IOEnv.VERIF_GEN_OUT)
=======================================================================
