--------------------------- MODULE Trace_Strs ---------------------------
(* Trace validation of bitword (C08), bitstr (C09) and sigbits (C16, C17) against module Strs. *)
EXTENDS Strs, TraceIO

VARIABLE l
Ev == Trace[l]
IsEvent(k) == l <= Len(Trace) /\ Ev.k = k /\ Ev.abn = "" /\ l' = l + 1

\* ---- C08
BWOK(in, o) ==
    LET s == in.s  n == in.n  ws == FromStrD(s, n) IN
    /\ n \in {1, 2, 4, 8}
    /\ o.words = ws
    /\ o.get = ws                                   \* Get(s, i) for every i
    /\ o.tostr = s                                  \* ToStr(FromStr(s)) = s
    /\ \A j \in DOMAIN o.trunc :                    \* ToStr of every prefix of the word list
          o.trunc[j] = ToStrD(SubSeq(ws, 1, j - 1), n)
TraceBW == IsEvent("bw") /\ BWOK(Ev.in, Ev.out)

BWToStrOK(in, o) ==
    /\ \A i \in DOMAIN in.ws : in.ws[i] >= 0 /\ in.ws[i] < 2 ^ in.n
    /\ o.s = ToStrD(in.ws, in.n)
    /\ o.back = FromStrD(o.s, in.n)
TraceBWToStr == IsEvent("bwtostr") /\ BWToStrOK(Ev.in, Ev.out)

BWFDOK(in, o) ==
    /\ Len(o.fd) = Len(in.windows)
    /\ \A j \in DOMAIN in.windows :
          LET from == in.windows[j][1]  end == in.windows[j][2] IN
          /\ from >= 0 /\ end >= -1
          /\ o.fd[j] = FirstDiffD(in.a, in.b, in.n, from, end)
    \* the same calls with arguments that share memory (one a substring of the other, or the very same string)
    \* whenever their values allow it: the result depends on the values only
    /\ o.fda = o.fd
TraceBWFD == IsEvent("bwfd") /\ BWFDOK(Ev.in, Ev.out)

BWStrsOK(in, o) ==
    /\ o.words = [i \in 1..Len(in.strs) |-> FromStrD(in.strs[i], in.n)]
    /\ o.back = in.strs
TraceBWStrs == IsEvent("bwstrs") /\ BWStrsOK(Ev.in, Ev.out)

\* ---- C09
ItemOK(it) == 0 <= it[2] /\ it[2] <= it[3] /\ it[3] <= NBits(it[1])
BSCmpOK(in, o) ==
    LET x(i) == EncBits(in.items[i][1], in.items[i][2], in.items[i][3]) IN
    /\ \A i \in DOMAIN in.items : ItemOK(in.items[i]) /\ o.lens[i] = Len(x(i))
    /\ Len(o.cmp) = Len(in.pairs)
    /\ \A j \in DOMAIN in.pairs : o.cmp[j] = LexCmp(x(in.pairs[j][1] + 1), x(in.pairs[j][2] + 1))
    /\ o.cmpa = o.cmp        \* the same encodings sharing memory where their bytes allow it: same answers
TraceBSCmp == IsEvent("bscmp") /\ BSCmpOK(Ev.in, Ev.out)

BSUptoOK(in, o) ==
    LET y == EncBits(in.item[1], in.item[2], in.item[3]) IN
    /\ ItemOK(in.item)
    /\ o.len = Len(y)
    /\ Len(o.cu) = Len(in.as) /\ Len(o.scu) = Len(in.as) /\ Len(o.scu2) = Len(in.as)
    /\ \A j \in DOMAIN in.as :
          LET c == CmpUptoD(in.as[j], y) IN o.cu[j] = c /\ o.scu[j] = c /\ o.scu2[j] = c
TraceBSUpto == IsEvent("bsupto") /\ BSUptoOK(Ev.in, Ev.out)

\* ---- C16
FDBOK(in, o) == Len(in.keys) >= 1 /\ o.fd = FirstDiffBitsD(in.keys)
TraceFDB == IsEvent("fdb") /\ FDBOK(Ev.in, Ev.out)

CntPOK(in, o) ==
    LET kb == KeyBitSeqs(in.keys) IN
    /\ StrictlyAscending(in.keys)
    /\ Len(o.res) = Len(in.queries)
    /\ \A j \in DOMAIN in.queries :
          LET q == in.queries[j] IN
          /\ 0 <= q[1] /\ q[2] - q[1] >= 2 /\ q[2] <= Len(in.keys) /\ q[3] >= 1
          /\ o.res[j] = CountPrefixesD(kb, q[1], q[2], q[3])
TraceCntP == IsEvent("cntp") /\ CntPOK(Ev.in, Ev.out)

\* Key sets of 10^5 and more keys, given by a pattern instead of a list: key i (0-based) is the 4-byte big-endian
\* number (i \div 13) * 32768 + PatT[i % 13]: strictly ascending, neighbours differ in bits 17..31 depending on i mod 13,
\* and 13 does not divide 2^16, so ranges 65536 keys apart look different.  FirstDiffBits is judged at sampled pairs, CountPrefixes (several
\* calls in a row on ONE SigBits object) on short ranges anywhere in the set; both depend on the keys of the
\* pair / range only, so the definitions are evaluated on those.
PatT == <<0, 1, 2, 4, 5, 64, 65, 1024, 1025, 4096, 8192, 8193, 16384>>
PatKey(i, stride) == LET v == ((i \div 13) * stride) + PatT[(i % 13) + 1] IN << v \div 16777216, (v \div 65536) % 256, (v \div 256) % 256, v % 256 >>
FDBBigOK(in, o) ==
    /\ in.n >= 2 /\ in.stride = 32768 /\ o.n = in.n - 1
    /\ Len(o.fd) = Len(in.idxs)
    /\ \A j \in DOMAIN in.idxs :
          LET p == in.idxs[j] IN
          /\ 0 <= p /\ p < in.n - 1
          /\ o.fd[j] = FirstDiffBitD(PatKey(p, in.stride), PatKey(p + 1, in.stride))
TraceFDBBig == IsEvent("fdbbig") /\ FDBBigOK(Ev.in, Ev.out)
CntPBigOK(in, o) ==
    /\ in.n >= 2 /\ in.stride = 32768 /\ Len(o.res) = Len(in.queries)
    /\ \A j \in DOMAIN in.queries :
          LET q == in.queries[j]
              sub == [t \in 1..(q[2] - q[1]) |-> PatKey(q[1] + t - 1, in.stride)] IN
          /\ 0 <= q[1] /\ q[2] - q[1] >= 2 /\ q[2] <= in.n /\ q[3] >= 1
          /\ o.res[j] = CountPrefixesD(KeyBitSeqs(sub), 0, q[2] - q[1], q[3])
TraceCntPBig == IsEvent("cntpbig") /\ CntPBigOK(Ev.in, Ev.out)

\* ---- C17
ShardEvOK(in, o) ==
    /\ Len(in.keys) >= 1 /\ StrictlyAscending(in.keys) /\ in.maxSize >= 1
    /\ ShardOK(in.keys, in.maxSize, o.L, o.B)
TraceShard == IsEvent("shard") /\ ShardEvOK(Ev.in, Ev.out)

\* ShardByPrefix on a pattern key set (PatKey) of 10^5 and more keys: the whole boundary list is too long to log,
\* so the driver reports its length, its first and last entry and, for every key index in in.at plus a seeded
\* sample, the shard holding that key as <<j, B[j], B[j+1], L[j], L[j+1] or -1>> (j 1-based).  Every reported shard
\* must satisfy the conjuncts of Strs!ShardOK that concern it; the keys are sorted, so the common prefix of a shard
\* is that of its first and last key.
ShardBigOK(in, o) ==
    LET key(i) == PatKey(i, in.stride)                         \* 0-based
        holds(sh, at) == sh[2] <= at /\ at < sh[3] IN
    /\ in.n >= 1 /\ in.stride = 32768 /\ in.maxSize >= 1
    /\ o.nb >= 2 /\ o.nl = o.nb - 1 /\ o.b1 = 0 /\ o.blast = in.n
    /\ \A a \in DOMAIN in.at : \E k \in DOMAIN o.shards : holds(o.shards[k], in.at[a])
    /\ \A k \in DOMAIN o.shards :
          LET sh == o.shards[k]  j == sh[1]  s == sh[2]  e == sh[3] IN
          /\ 1 <= j /\ j <= o.nl /\ 0 <= s /\ s < e /\ e <= in.n
          /\ (j = 1 <=> s = 0) /\ (j = o.nl <=> e = in.n)
          /\ e - s <= in.maxSize
          /\ sh[4] = LCP2(key(s), key(e - 1))
          /\ (j < o.nl => /\ sh[5] >= 0 /\ sh[5] <= 4
                          /\ LexCmp(Take(key(s), sh[4]), Take(key(e), sh[5])) = -1)
TraceShardBig == IsEvent("shardbig") /\ ShardBigOK(Ev.in, Ev.out)

TraceInit == l = 1
TraceNext == TraceBW \/ TraceBWToStr \/ TraceBWFD \/ TraceBWStrs \/ TraceBSCmp \/ TraceBSUpto
             \/ TraceFDB \/ TraceCntP \/ TraceFDBBig \/ TraceCntPBig \/ TraceShard \/ TraceShardBig
TraceSpec == TraceInit /\ [][TraceNext]_l
==========================================================================
