SPECIFICATION Spec
CONSTANTS
  W = 4
  K = 2
  Widths = {1}
  MaxVals = 0
  MaxWords = 2
INVARIANTS JoinOK SliceOK
CHECK_DEADLOCK FALSE
