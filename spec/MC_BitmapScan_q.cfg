SPECIFICATION Spec
CONSTANTS
  W = 4
  K = 2
  MaxWords = 2
INVARIANTS NextOK PrevOK
CHECK_DEADLOCK FALSE
