SPECIFICATION Spec
CONSTANTS
  W = 8
  K = 4
  Widths = {1, 2, 4, 8}
  MaxVals = 2
  MaxWords = 0
INVARIANTS JoinOK SliceOK
CHECK_DEADLOCK FALSE
