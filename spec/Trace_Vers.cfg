SPECIFICATION TraceSpec
POSTCONDITION TraceAccepted
CHECK_DEADLOCK FALSE
