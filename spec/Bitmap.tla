--------------------------- MODULE Bitmap ---------------------------
(* Definition layer (D) of package bitmap: what the functions mean, in sets and sequences,   *)
(* with no algorithmic content.  A bitmap is (nw, S): nw words of W bits and the set S of the *)
(* positions of its 1-bits, S \subseteq 0..W*nw-1.  Real code: W = 64, K = 32.                *)
EXTENDS Integers, Sequences, FiniteSets, FiniteSetsExt

CONSTANTS W,    \* word width
          K     \* select sample rate

IsAsc(s)      == \A i \in 1..(Len(s) - 1) : s[i] < s[i + 1]
CeilDiv(a, b) == (a + b - 1) \div b
Max2(a, b)    == IF a > b THEN a ELSE b
Min2(a, b)    == IF a < b THEN a ELSE b
WellFormed(nw, S) == nw >= 0 /\ \A x \in S : x >= 0 /\ x < W * nw

\* ---------------------------------------------------------------- rank (C01)
Rank(S, i)  == Cardinality({x \in S : x < i})
BitAt(S, i) == IF i \in S THEN 1 ELSE 0

\* v lists <<Rank(S,i), BitAt(S,i)>> for i = 0..N-1: stated inductively (rank(0) = 0,
\* rank(i+1) = rank(i) + bit(i)) so that a whole vector is judged in linear time.
\* MC_BitmapRank checks that this characterisation coincides with Rank/BitAt.
RankVecOK(S, N, v) ==
    /\ Len(v) = N
    /\ \A i \in 1..N : v[i][2] = BitAt(S, i - 1)
    /\ (N > 0 => v[1][1] = 0)
    /\ \A i \in 2..N : v[i][1] = v[i - 1][1] + v[i - 1][2]

\* one entry per word, entry k = ones before position W*k, plus the grand total when trailing
IdxRank64D(S, nw, trailing) ==
    [k \in 1..(nw + (IF trailing THEN 1 ELSE 0)) |-> Rank(S, W * (k - 1))]
\* nw \div 2 + 1 entries, entry k = ones before position 2W*k
IdxRank128D(S, nw) == [k \in 1..(nw \div 2 + 1) |-> Rank(S, 2 * W * (k - 1))]

\* ---------------------------------------------------------------- select (C02)
\* ones is the ascending enumeration of S: ones[i+1] is the i-th 1-bit (counting from 0)
SelectD(ones, nw, i) == <<ones[i + 1], IF i + 1 < Len(ones) THEN ones[i + 2] ELSE W * nw>>
SelectVecOK(ones, nw, v) ==
    /\ Len(v) = Len(ones)
    /\ \A i \in 1..Len(ones) : v[i] = SelectD(ones, nw, i - 1)
IdxSelectD(ones) == [j \in 1..CeilDiv(Len(ones), K) |-> ones[K * (j - 1) + 1]]

\* ---------------------------------------------------------------- long bitmaps (beyond 2^16 bits)
\* A long bitmap is given by nw and the ascending list L of its 1-bits (sparse) or of its 0-bits (dense).
OnesBeforeL(dense, L, i) == IF dense THEN i - Cardinality({j \in DOMAIN L : L[j] < i})
                            ELSE Cardinality({j \in DOMAIN L : L[j] < i})
BitAtL(dense, L, i) == LET m == \E j \in DOMAIN L : L[j] = i IN IF dense THEN (IF m THEN 0 ELSE 1) ELSE (IF m THEN 1 ELSE 0)
\* the i-th 1-bit (from 0): sparse: L[i+1]; dense: i plus the number of 0-bits in front of it, i.e. the zeros
\* L[j] with L[j] - (j-1) <= i  (L[j] - (j-1) = number of 1-bits before the j-th zero).  MC_BitmapSelect
\* checks this closed form against the definition.
SelectL(dense, L, i) == IF dense THEN i + Cardinality({j \in DOMAIN L : L[j] - (j - 1) <= i}) ELSE L[i + 1]
NOnesL(dense, L, nw) == IF dense THEN W * nw - Len(L) ELSE Len(L)

\* the single-result select of the second (unexported) select family: -1 for a negative i, the
\* position of the i-th 1-bit, W*nw when there is no such bit
Select1D(ones, nw, i) == IF i < 0 THEN -1 ELSE IF i < Len(ones) THEN ones[i + 1] ELSE W * nw

\* ---------------------------------------------------------------- next / prev (C13)
NextD(S, i, end) == LET C == {p \in S : p >= i /\ p < end} IN IF C = {} THEN -1 ELSE Min(C)
PrevD(S, i, end) == LET C == {p \in S : p >= i /\ p < end} IN IF C = {} THEN -1 ELSE Max(C)

\* ---------------------------------------------------------------- construction / inspection (C12)
\* Of(L, n): L ascending positions, n the optional size (0 when absent)
OfD(L, n) ==
    LET last1 == IF Len(L) = 0 THEN 0 ELSE L[Len(L)] + 1
    IN [nw |-> CeilDiv(Max2(Max2(n, last1), 0), W), ones |-> Range(L)]
\* the word returned by Get / Get1 as the set of its bit positions
GetD(S, i)  == IF i \in S THEN {i % W} ELSE {}
Get1D(S, i) == IF i \in S THEN {0} ELSE {}
Inside(nw, i) == i >= 0 /\ i < W * nw
\* OfMany: positions of segment k shifted by the sum of the preceding sizes
RECURSIVE SumSeq(_)
SumSeq(s) == IF Len(s) = 0 THEN 0 ELSE s[1] + SumSeq(Tail(s))
RECURSIVE Shifted(_, _, _)
Shifted(subs, sizes, base) ==
    IF Len(subs) = 0 THEN <<>>
    ELSE [j \in 1..Len(subs[1]) |-> base + subs[1][j]] \o Shifted(Tail(subs), Tail(sizes), base + sizes[1])
OfManyD(subs, sizes) == OfD(Shifted(subs, sizes, 0), SumSeq(sizes))

\* ---------------------------------------------------------------- join / getw / slice (C14)
\* a machine word is four 16-bit limbs, most significant first
BitOfLimbs(v, b) == (v[4 - (b \div 16)] \div (2 ^ (b % 16))) % 2
LowLimbs(v, w) ==   \* the low w bits of v
    [j \in 1..4 |-> LET lo == 16 * (4 - j)
                        keep == IF w - lo < 0 THEN 0 ELSE IF w - lo > 16 THEN 16 ELSE w - lo
                    IN v[j] % (2 ^ keep)]
JoinD(vals, w) ==
    [nw |-> CeilDiv(Len(vals) * w, W),
     ones |-> {(ib[1] - 1) * w + ib[2] : ib \in {x \in (1..Len(vals)) \X (0..(w - 1)) : BitOfLimbs(vals[x[1]], x[2]) = 1}}]
SliceD(S, from, to) ==
    [nw |-> CeilDiv(to - from, W), ones |-> {p - from : p \in {q \in S : q >= from /\ q < to}}]
=====================================================================
