SPECIFICATION Spec
CONSTANTS
  BB = 2
  MaxLen = 4
INVARIANTS AlgIsDef HighBitsZero
CHECK_DEADLOCK FALSE
