--------------------------- MODULE Strings ---------------------------
(* Byte strings as sequences of byte values, and their bits, most significant bit of each    *)
(* byte first.  BB = bits per byte (8 in the code; smaller in scaled model checking).         *)
EXTENDS Integers, Sequences

CONSTANT BB

\* the bits of one byte value, most significant first (a constant table: evaluated once)
ByteBits == [v \in 0..(2 ^ BB - 1) |-> [i \in 1..BB |-> (v \div (2 ^ (BB - i))) % 2]]
\* bit j (1-based, MSB first) of byte string s
SBit(s, j) == ByteBits[s[((j - 1) \div BB) + 1]][((j - 1) % BB) + 1]
NBits(s)   == BB * Len(s)
\* the bit sequence of s
SBits(s)   == [j \in 1..NBits(s) |-> SBit(s, j)]
\* value of a bit sequence read as a binary number
RECURSIVE BitsVal(_)
BitsVal(b) == IF Len(b) = 0 THEN 0 ELSE 2 * BitsVal(SubSeq(b, 1, Len(b) - 1)) + b[Len(b)]
\* lexicographic comparison of two sequences of numbers, a proper prefix sorting first: -1, 0, 1
LexCmp(a, b) ==
    LET n == IF Len(a) < Len(b) THEN Len(a) ELSE Len(b)
        D == {i \in 1..n : a[i] # b[i]}
    IN IF D = {}
       THEN (IF Len(a) < Len(b) THEN -1 ELSE IF Len(a) > Len(b) THEN 1 ELSE 0)
       ELSE LET i == CHOOSE i \in D : \A j \in D : i <= j IN IF a[i] < b[i] THEN -1 ELSE 1
Take(a, n) == SubSeq(a, 1, IF n < Len(a) THEN n ELSE Len(a))
=======================================================================
