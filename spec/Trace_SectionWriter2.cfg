SPECIFICATION TraceSpec
CONSTANTS
  Inf = 1073741824
POSTCONDITION TraceAccepted
CHECK_DEADLOCK FALSE
