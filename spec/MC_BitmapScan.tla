--------------------------- MODULE MC_BitmapScan ---------------------------
(* C13, scaled exhaustive: NextOne / PrevOne of bitmap/next.go (first word masked by           *)
(* RMask/MaskUpto, then word stepping from the next/previous W-aligned position, then the clip *)
(* against end / i) equal Min/Max of {p in ones : i <= p < end} for EVERY bitmap and range.    *)
EXTENDS Bitmap, TLC

CONSTANT MaxWords
VARIABLES nw, S, i, end
vars == <<nw, S, i, end>>

Init == \E n \in 1..MaxWords :
          /\ nw = n /\ S \in SUBSET (0..(W * n - 1))
          /\ i \in 0..(W * n - 1) /\ end \in 0..(W * n) /\ i <= end
Next == UNCHANGED vars
Spec == Init /\ [][Next]_vars

Word(k) == {b \in 0..(W - 1) : W * k + b \in S}

\* NextOne
RECURSIVE StepUp(_)
StepUp(p) == IF p >= end THEN -1                                   \* for ; i < end; i += W
             ELSE IF Word(p \div W) # {} THEN p + Min(Word(p \div W))
             ELSE StepUp(p + W)
NextOneAlg ==
    LET first == {b \in Word(i \div W) : b >= i % W}                \* bm[wordIdx] & RMask[bitIdx]
        nxt == IF first # {} THEN W * (i \div W) + Min(first)
               ELSE StepUp(((i + W - 1) \div W) * W)               \* (i + 63) & ^63
    IN IF nxt >= end THEN -1 ELSE nxt

\* PrevOne (end >= 1)
RECURSIVE StepDown(_)
StepDown(p) == IF p < i THEN -1                                     \* for ; end >= i; end -= W
               ELSE IF Word(p \div W) # {} THEN p - (W - 1 - Max(Word(p \div W)))   \* end - LeadingZeros
               ELSE StepDown(p - W)
PrevOneAlg ==
    LET e == end - 1
        first == {b \in Word(e \div W) : b <= e % W}                \* bm[wordIdx] & MaskUpto[bitIdx]
        prv == IF first # {} THEN W * (e \div W) + Max(first)
               ELSE StepDown((e \div W) * W - 1)                   \* (end & ^63) - 1
    IN IF prv < i THEN -1 ELSE prv

NextOK == NextOneAlg = NextD(S, i, end)
PrevOK == end >= 1 => PrevOneAlg = PrevD(S, i, end)
==============================================================================
