SPECIFICATION TraceSpec
CONSTANTS
  VL = 16
  FW = 8
  Inf = 1073741824
POSTCONDITION TraceAccepted
CHECK_DEADLOCK FALSE
