SPECIFICATION Spec
CONSTANTS
  W = 64
  RT = 1024
  Depth = 24
  Span = 8
INVARIANT Inv
CHECK_DEADLOCK FALSE
