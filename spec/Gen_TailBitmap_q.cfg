SPECIFICATION Spec
CONSTANTS
  W = 64
  RT = 1024
  Depth = 16
  Span = 6
INVARIANT Inv
CHECK_DEADLOCK FALSE
