--------------------------- MODULE MC_BmPath ---------------------------
(* C10, scaled exhaustive: for EVERY pair of nodes of every height <= MaxH, unsigned numeric    *)
(* order of the path words (as sets of bit positions, Bmtree!OnesLess) equals pre-order of the  *)
(* nodes (Bmtree!PreLess); the set form of a path word agrees with its <<hi, lo>> halves; and   *)
(* pre-order is a strict total order.                                                           *)
EXTENDS Bmtree, Strings, TLC

CONSTANT MaxH
VARIABLES h, p, q
vars == <<h, p, q>>

BitSeqs(n) == UNION {[1..k -> {0, 1}] : k \in 0..n}
Init == /\ h \in 0..MaxH /\ p \in BitSeqs(MaxH) /\ q \in BitSeqs(MaxH) /\ Len(p) <= h /\ Len(q) <= h
Next == UNCHANGED vars
Spec == Init /\ [][Next]_vars

OnesOfInt(v) == {b \in 0..30 : (v \div P2(b)) % 2 = 1}
OrderIsPreOrder == OnesLess(PathOnes(h, p), PathOnes(h, q)) <=> PreLess(p, q)
TotalOrder == /\ ~(PreLess(p, q) /\ PreLess(q, p))
              /\ (p # q => PreLess(p, q) \/ PreLess(q, p))
              /\ ~PreLess(p, p)
HalvesAgree == LET hl == PathHL(h, Len(p), BitsVal(p)) IN
    PathOnes(h, p) = {32 + b : b \in OnesOfInt(hl[1])} \cup OnesOfInt(hl[2])
AncestorFirst == (IsPrefix(p, q) /\ p # q) => PreLess(p, q)
==========================================================================
