--------------------------- MODULE Trace_Builder ---------------------------
(* Trace validation of bitmap.Builder histories (C12): every recorded call must be a step of   *)
(* the Builder machine with the logged post-state (Offset, len(Words), 1-bits); and the        *)
(* property's own formulation is monitored: while only Extend has been called with ascending   *)
(* shifted positions, the state equals what Of builds from all shifted positions and the sum   *)
(* of sizes.                                                                                    *)
EXTENDS Builder, TraceIO, FiniteSetsExt

VARIABLES l, sum, allpos, pure
tvars == <<offset, nw, ones, l, sum, allpos, pure>>

Ev == Trace[l]
IsEvent(k) == l <= Len(Trace) /\ Ev.k = k /\ Ev.abn = "" /\ l' = l + 1
StateMatches(st) == offset' = st.off /\ nw' = st.nw /\ ones' = ToSet(st.ones)
OfWords(P, n) == BCeilDiv(BMax(BMax(n, IF P = {} THEN 0 ELSE Max(P) + 1), 0), W)
IsAscSeq(s) == \A i \in 1..(Len(s) - 1) : s[i] < s[i + 1]

TraceNew ==
    /\ IsEvent("BNew") /\ Ev.n >= 0
    /\ New(Ev.n) /\ sum' = 0 /\ allpos' = {} /\ pure' = TRUE
    /\ StateMatches(Ev.st)

TraceExtend ==
    /\ IsEvent("BExtend") /\ Ev.size >= 0 /\ IsAscSeq(Ev.pos) /\ (Len(Ev.pos) > 0 => Ev.pos[1] >= 0)
    /\ Extend(Ev.pos, Ev.size)
    /\ sum' = sum + Ev.size
    /\ allpos' = allpos \cup {offset + Ev.pos[i] : i \in DOMAIN Ev.pos}
    /\ pure' = (pure /\ (Len(Ev.pos) > 0 /\ allpos # {} => offset + Ev.pos[1] > Max(allpos)))
    /\ StateMatches(Ev.st) /\ EnoughWords'
    /\ (pure' => /\ ToSet(Ev.st.ones) = allpos' /\ Ev.st.off = sum' /\ Ev.st.nw = OfWords(allpos', sum'))

TraceSet ==
    /\ IsEvent("BSet") /\ Ev.pos >= 0
    /\ Set(Ev.pos, Ev.val)
    /\ pure' = FALSE /\ UNCHANGED <<sum, allpos>>
    /\ StateMatches(Ev.st) /\ EnoughWords'
    /\ Ev.st.off > Ev.pos /\ (Ev.val % 2 = 1 => Ev.pos \in ToSet(Ev.st.ones))

TraceInit == offset = 0 /\ nw = 0 /\ ones = {} /\ l = 1 /\ sum = 0 /\ allpos = {} /\ pure = TRUE
TraceNext == TraceNew \/ TraceExtend \/ TraceSet
TraceSpec == TraceInit /\ [][TraceNext]_tvars
=============================================================================
