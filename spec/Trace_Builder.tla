--------------------------- MODULE Trace_Builder ---------------------------
(* Trace validation of bitmap.Builder histories (C12): every recorded call must be a step of   *)
(* the Builder machine with the logged post-state (Offset, len(Words), 1-bits); and the        *)
(* property's own formulation is monitored: while only Extend has been called with ascending   *)
(* shifted positions, the state equals what Of builds from all shifted positions and the sum   *)
(* of sizes.                                                                                    *)
EXTENDS Builder, TraceIO, FiniteSetsExt

VARIABLES l, sum, allpos, pure
tvars == <<offset, nw, ones, l, sum, allpos, pure>>

Ev == Trace[l]
IsEvent(k) == l <= Len(Trace) /\ Ev.k = k /\ Ev.abn = "" /\ l' = l + 1
\* The property fixes Offset and the bits, and asks for "enough words for every bit": the number of words is
\* taken from the log and must be at least what the machine needs (spare words are allowed).
StateMatches(st) == offset' = st.off /\ ones' = ToSet(st.ones)
OfWords(P, n) == BCeilDiv(BMax(BMax(n, IF P = {} THEN 0 ELSE Max(P) + 1), 0), W)
IsAscSeq(s) == \A i \in 1..(Len(s) - 1) : s[i] < s[i + 1]

TraceNew ==
    /\ IsEvent("BNew") /\ Ev.n >= 0
    /\ offset' = 0 /\ ones' = {} /\ nw' = Ev.st.nw /\ Ev.st.nw >= 0
    /\ sum' = 0 /\ allpos' = {} /\ pure' = TRUE
    /\ StateMatches(Ev.st)

\* the words the machine needs after Extend(L, size) / Set(pos, val) (Builder.tla), given the words it has
NeedExtend(L, size) == LET last == IF Len(L) = 0 THEN -1 ELSE L[Len(L)]
                           end  == IF last >= size THEN offset + last + 1 ELSE offset + size
                       IN BMax(nw, BCeilDiv(end, W))
TraceExtend ==
    /\ IsEvent("BExtend") /\ Ev.size >= 0 /\ IsAscSeq(Ev.pos) /\ (Len(Ev.pos) > 0 => Ev.pos[1] >= 0)
    /\ ones' = ones \cup {offset + Ev.pos[i] : i \in DOMAIN Ev.pos} /\ offset' = offset + Ev.size
    /\ nw' = Ev.st.nw /\ Ev.st.nw >= NeedExtend(Ev.pos, Ev.size)
    /\ sum' = sum + Ev.size
    /\ allpos' = allpos \cup {offset + Ev.pos[i] : i \in DOMAIN Ev.pos}
    /\ pure' = (pure /\ (Len(Ev.pos) > 0 /\ allpos # {} => offset + Ev.pos[1] > Max(allpos)))
    /\ StateMatches(Ev.st) /\ EnoughWords'
    \* while only Extend was called (ascending): the bits and Offset of what Of builds, and at least its words
    /\ (pure' => /\ ToSet(Ev.st.ones) = allpos' /\ Ev.st.off = sum' /\ Ev.st.nw >= OfWords(allpos', sum'))

TraceSet ==
    /\ IsEvent("BSet") /\ Ev.pos >= 0
    /\ ones' = (IF Ev.val % 2 = 1 THEN ones \cup {Ev.pos} ELSE ones) /\ offset' = BMax(offset, Ev.pos + 1)
    /\ nw' = Ev.st.nw /\ Ev.st.nw >= BMax(nw, Ev.pos \div W + 1)
    /\ pure' = FALSE /\ UNCHANGED <<sum, allpos>>
    /\ StateMatches(Ev.st) /\ EnoughWords'
    /\ Ev.st.off > Ev.pos /\ (Ev.val % 2 = 1 => Ev.pos \in ToSet(Ev.st.ones))

TraceInit == offset = 0 /\ nw = 0 /\ ones = {} /\ l = 1 /\ sum = 0 /\ allpos = {} /\ pure = TRUE
TraceNext == TraceNew \/ TraceExtend \/ TraceSet
TraceSpec == TraceInit /\ [][TraceNext]_tvars
=============================================================================
